pub mod chain;
pub mod history;
pub mod model;
pub mod node;
pub mod props;
pub mod runner;
pub mod server;
pub mod util;
