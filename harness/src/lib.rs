pub mod node;
pub mod props;
pub mod runner;
pub mod util;
