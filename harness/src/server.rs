//! An in-process `ord server` over a real index on a mock node, plus a
//! small chain builder for hand-made inscriptions.

use {
  crate::node::{IndexConfig, Node, coinbase_input, make_block, scratch_dir, settings_for},
  anyhow::{Context, Result, anyhow},
  bitcoin::{
    Amount, Block, BlockHash, Network, OutPoint, ScriptBuf, Sequence, Transaction, TxIn, TxOut,
    Txid, Witness, absolute::LockTime, transaction::Version,
  },
  clap::Parser,
  ord::{Index, Inscription, InscriptionId, settings::Settings, subcommand::server::Server},
  std::{collections::BTreeMap, sync::Arc, time::Duration},
};

pub struct TestServer {
  pub node: Node,
  pub dir: tempfile::TempDir,
  pub index: Arc<Index>,
  pub settings: Settings,
  pub port: u16,
  handle: axum_server::Handle<std::net::SocketAddr>,
  thread: Option<std::thread::JoinHandle<()>>,
  pub client: reqwest::blocking::Client,
}

pub struct ServerOptions {
  pub csp_origin: Option<String>,
  pub decompress: bool,
  pub hidden: Vec<InscriptionId>,
  pub disable_json_api: bool,
}

impl TestServer {
  /// Indexes `blocks` with `config` and serves the result (`--no-sync`).
  pub fn start(network: Network, config: &IndexConfig, blocks: &[Block], options: &ServerOptions) -> Result<Self> {
    let node = Node::new(network);
    node.set_chain(blocks);
    let dir = scratch_dir();
    let mut settings = settings_for(&node, dir.path(), config)?;
    if !options.hidden.is_empty() {
      // hidden inscriptions can only come from the environment or the config file
      let mut env = BTreeMap::new();
      env.insert(
        "HIDDEN".to_string(),
        options
          .hidden
          .iter()
          .map(|id| id.to_string())
          .collect::<Vec<_>>()
          .join(" "),
      );
      let hidden = Settings::from_env(env)?;
      settings = settings.or(hidden);
    }
    let index = Arc::new(Index::open(&settings)?);
    index.update()?;
    let mut args: Vec<String> = vec![
      "server".into(),
      "--http-port".into(),
      "0".into(),
      "--address".into(),
      "127.0.0.1".into(),
      "--no-sync".into(),
      "--polling-interval".into(),
      "1h".into(),
    ];
    if let Some(origin) = &options.csp_origin {
      args.push("--csp-origin".into());
      args.push(origin.clone());
    }
    if options.decompress {
      args.push("--decompress".into());
    }
    if options.disable_json_api {
      args.push("--disable-json-api".into());
    }
    let server = Server::try_parse_from(&args).map_err(|e| anyhow!("server args: {e}"))?;
    let handle = axum_server::Handle::new();
    let (port_tx, port_rx) = std::sync::mpsc::channel();
    let thread = {
      let settings = settings.clone();
      let index = index.clone();
      let handle = handle.clone();
      std::thread::spawn(move || {
        let _ = server.run(settings, index, handle, Some(port_tx));
      })
    };
    let port = port_rx
      .recv_timeout(Duration::from_secs(20))
      .context("server did not report its port")?;
    let client = reqwest::blocking::Client::builder()
      .no_brotli()
      .redirect(reqwest::redirect::Policy::none())
      .timeout(Duration::from_secs(30))
      .build()?;
    Ok(Self {
      node,
      dir,
      index,
      settings,
      port,
      handle,
      thread: Some(thread),
      client,
    })
  }

  pub fn url(&self, path: &str) -> String {
    format!("http://127.0.0.1:{}{}", self.port, path)
  }

  pub fn get(&self, path: &str, accept_encoding: Option<&str>, json: bool) -> Result<Response> {
    let mut request = self.client.get(self.url(path));
    if let Some(ae) = accept_encoding {
      request = request.header("accept-encoding", ae);
    } else {
      request = request.header("accept-encoding", "identity");
    }
    if json {
      request = request.header("accept", "application/json");
    }
    let response = request.send()?;
    Response::from(response)
  }

  pub fn get_no_accept_encoding(&self, path: &str) -> Result<Response> {
    // reqwest adds no accept-encoding when decompression features are off
    let response = self.client.get(self.url(path)).send()?;
    Response::from(response)
  }

  pub fn post_json(&self, path: &str, body: &serde_json::Value) -> Result<Response> {
    let response = self
      .client
      .post(self.url(path))
      .header("accept", "application/json")
      .header("accept-encoding", "identity")
      .json(body)
      .send()?;
    Response::from(response)
  }

  pub fn json<T: serde::de::DeserializeOwned>(&self, path: &str) -> Result<T> {
    let response = self.get(path, None, true)?;
    if response.status != 200 {
      return Err(anyhow!("GET {path}: status {} body {}", response.status, String::from_utf8_lossy(&response.body)));
    }
    serde_json::from_slice(&response.body).with_context(|| format!("GET {path}: body {}", String::from_utf8_lossy(&response.body)))
  }
}

impl Drop for TestServer {
  fn drop(&mut self) {
    self.handle.shutdown();
    if let Some(thread) = self.thread.take() {
      let _ = thread.join();
    }
  }
}

pub struct Response {
  pub status: u16,
  pub headers: Vec<(String, Vec<u8>)>,
  pub body: Vec<u8>,
}

impl Response {
  fn from(response: reqwest::blocking::Response) -> Result<Self> {
    let status = response.status().as_u16();
    let headers = response
      .headers()
      .iter()
      .map(|(k, v)| (k.as_str().to_ascii_lowercase(), v.as_bytes().to_vec()))
      .collect();
    let body = response.bytes()?.to_vec();
    Ok(Self {
      status,
      headers,
      body,
    })
  }

  pub fn header_values(&self, name: &str) -> Vec<String> {
    self
      .headers
      .iter()
      .filter(|(k, _)| k == name)
      .map(|(_, v)| String::from_utf8_lossy(v).to_string())
      .collect()
  }

  pub fn header(&self, name: &str) -> Option<String> {
    self.header_values(name).into_iter().next()
  }

  /// Body with a transport-level `br` encoding undone.
  pub fn decoded_body(&self) -> Vec<u8> {
    if self.header("content-encoding").as_deref() == Some("br") {
      let mut out = Vec::new();
      if std::io::Read::read_to_end(&mut brotli::Decompressor::new(self.body.as_slice(), 4096), &mut out).is_ok() {
        return out;
      }
    }
    if self.header("content-encoding").as_deref() == Some("gzip") {
      let mut out = Vec::new();
      if std::io::Read::read_to_end(&mut flate2::read::GzDecoder::new(self.body.as_slice()), &mut out).is_ok() {
        return out;
      }
    }
    self.body.clone()
  }
}

// ------------------------------------------------------------ small chains

/// A simple chain under construction: coinbase-only blocks plus reveal
/// transactions made from `ord::Inscription` values.
pub struct SimpleChain {
  pub network: Network,
  pub blocks: Vec<Block>,
  pub tip: BlockHash,
  pub coinbases: Vec<OutPoint>,
  pub pending: Vec<Transaction>,
  pub values: BTreeMap<OutPoint, u64>,
}

pub fn p2tr(k: u8) -> ScriptBuf {
  let mut v = vec![0x51, 0x20];
  v.extend([k; 32]);
  ScriptBuf::from_bytes(v)
}

impl SimpleChain {
  pub fn new(network: Network) -> Self {
    Self {
      network,
      blocks: Vec::new(),
      tip: bitcoin::blockdata::constants::genesis_block(network).block_hash(),
      coinbases: Vec::new(),
      pending: Vec::new(),
      values: BTreeMap::new(),
    }
  }

  pub fn height(&self) -> u32 {
    self.blocks.len() as u32 + 1
  }

  /// Mines a block containing the pending transactions.
  pub fn mine(&mut self) {
    let height = self.height();
    let fees: u64 = 0;
    let coinbase = Transaction {
      version: Version(2),
      lock_time: LockTime::ZERO,
      input: vec![coinbase_input(height, 0)],
      output: vec![TxOut {
        value: Amount::from_sat(crate::model::subsidy(u64::from(height)) + fees),
        script_pubkey: p2tr(1),
      }],
    };
    let op = OutPoint {
      txid: coinbase.compute_txid(),
      vout: 0,
    };
    self.coinbases.push(op);
    self.values.insert(op, coinbase.output[0].value.to_sat());
    let mut txdata = vec![coinbase];
    txdata.append(&mut self.pending);
    let block = make_block(self.tip, height, height, txdata);
    self.tip = block.block_hash();
    self.blocks.push(block);
  }

  pub fn mine_n(&mut self, n: usize) {
    for _ in 0..n {
      self.mine();
    }
  }

  /// Queues a fee-free transaction spending `inputs` entirely into
  /// `outputs` scripts (equal split), with the given witnesses.
  pub fn spend(&mut self, inputs: &[(OutPoint, Witness)], outputs: &[ScriptBuf]) -> Txid {
    let total: u64 = inputs.iter().map(|(o, _)| self.values[o]).sum();
    let n = outputs.len() as u64;
    let tx = Transaction {
      version: Version(2),
      lock_time: LockTime::ZERO,
      input: inputs
        .iter()
        .map(|(o, w)| TxIn {
          previous_output: *o,
          script_sig: ScriptBuf::new(),
          sequence: Sequence::MAX,
          witness: w.clone(),
        })
        .collect(),
      output: outputs
        .iter()
        .enumerate()
        .map(|(i, s)| TxOut {
          value: Amount::from_sat(if i as u64 == n - 1 { total - (total / n) * (n - 1) } else { total / n }),
          script_pubkey: s.clone(),
        })
        .collect(),
    };
    let txid = tx.compute_txid();
    for (vout, o) in tx.output.iter().enumerate() {
      self.values.insert(
        OutPoint {
          txid,
          vout: vout as u32,
        },
        o.value.to_sat(),
      );
    }
    self.pending.push(tx);
    txid
  }

  /// Queues a reveal of `inscriptions` (one script) on `input`; the whole
  /// value goes to one P2TR output. Returns the ids.
  pub fn reveal(&mut self, input: OutPoint, inscriptions: &[Inscription], to: ScriptBuf) -> Vec<InscriptionId> {
    let script = Inscription::append_batch_reveal_script(inscriptions, bitcoin::script::Builder::new());
    let mut witness = Witness::new();
    witness.push(script);
    witness.push([0xc0u8; 33]);
    let txid = self.spend(&[(input, witness)], &[to]);
    (0..inscriptions.len() as u32)
      .map(|index| InscriptionId { txid, index })
      .collect()
  }
}
