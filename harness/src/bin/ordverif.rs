use {
  ordverif::{
    props,
    runner::{Args, Session, Tier},
  },
  std::{path::PathBuf, process},
};

fn usage() -> ! {
  eprintln!(
    "usage: ordverif <ID> [--tier quick|thorough] [--seed N] [--replay FILE] [--workers N] [--scale F]"
  );
  process::exit(2);
}

fn session_id(session: &Session) -> String {
  session.args.id.clone()
}

fn main() {
  let mut argv = std::env::args().skip(1);
  let Some(id) = argv.next() else { usage() };

  // internal sub-commands used by some properties (worker processes)
  if id.starts_with("--internal-") {
    let rest: Vec<String> = argv.collect();
    process::exit(props::internal(&id, &rest));
  }

  let mut tier = match std::env::var("VERIF_TIER").as_deref() {
    Ok("thorough") => Tier::Thorough,
    _ => Tier::Quick,
  };
  let mut seed: u64 = std::env::var("VERIF_SEED")
    .ok()
    .and_then(|s| s.trim().parse::<i128>().ok())
    .map(|n| n as u64)
    .unwrap_or(0);
  let mut replay = None;
  let mut workers = std::thread::available_parallelism()
    .map(|n| n.get())
    .unwrap_or(4)
    .min(16);
  let mut scale = 1.0;

  while let Some(arg) = argv.next() {
    match arg.as_str() {
      "--tier" => {
        tier = match argv.next().as_deref() {
          Some("quick") => Tier::Quick,
          Some("thorough") => Tier::Thorough,
          _ => usage(),
        }
      }
      "--seed" => seed = argv.next().and_then(|s| s.parse().ok()).unwrap_or_else(|| usage()),
      "--replay" => replay = Some(PathBuf::from(argv.next().unwrap_or_else(|| usage()))),
      "--workers" => {
        workers = argv.next().and_then(|s| s.parse().ok()).unwrap_or_else(|| usage())
      }
      "--scale" => scale = argv.next().and_then(|s| s.parse().ok()).unwrap_or_else(|| usage()),
      _ => usage(),
    }
  }

  let Some(run) = props::dispatch(&id) else {
    eprintln!("unknown property {id}");
    process::exit(2);
  };

  ordverif::node::remove_stale_scratch_dirs();
  let mut session = Session::new(Args {
    id,
    tier,
    seed,
    replay,
    workers,
    scale,
  });
  let id_for_report = session_id(&session);
  let outcome = ordverif::runner::catch(move || {
    let meta = run(&mut session);
    session.finish(&meta)
  });
  let code = match outcome {
    Ok(code) => code,
    Err(record) => {
      // a panic of the machinery itself: never a verdict
      println!(
        "INCONCLUSIVE property={id_for_report}: harness panic at {}: {}",
        record.location, record.message
      );
      2
    }
  };
  // background threads (mock nodes, servers) must not keep the process alive
  process::exit(code);
}
