fn main() { ord::main() }
