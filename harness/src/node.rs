//! The mock Bitcoin Core node (the repository's own `mockcore`) driven by
//! writing its state directly, and helpers to open an `ord::Index` on it.

use {
  anyhow::{Context, Result, anyhow},
  bitcoin::{
    Amount, Block, BlockHash, CompactTarget, Network, OutPoint, ScriptBuf, Sequence, Transaction,
    TxIn, TxMerkleNode, TxOut, Witness, absolute::LockTime, block::Header, hashes::Hash,
    transaction::Version,
  },
  ord::{Index, Options, index::event::Event, settings::Settings},
  std::{
    collections::BTreeMap,
    path::{Path, PathBuf},
  },
};

pub struct Node {
  pub handle: mockcore::Handle,
  pub network: Network,
  pub genesis: Block,
}

impl Node {
  pub fn new(network: Network) -> Self {
    let handle = mockcore::builder().network(network).build();
    let genesis = bitcoin::blockdata::constants::genesis_block(network);
    Self {
      handle,
      network,
      genesis,
    }
  }

  pub fn url(&self) -> String {
    self.handle.url()
  }

  pub fn cookie_file(&self) -> PathBuf {
    self.handle.cookie_file()
  }

  /// Replaces the node's active chain by genesis + `blocks` and rebuilds
  /// every derived map from it (this is also how reorganisations are made).
  pub fn set_chain(&self, blocks: &[Block]) {
    let mut state = self.handle.state();
    state.blocks.clear();
    state.hashes.clear();
    state.transactions.clear();
    state.txid_to_block_height.clear();
    state.utxos.clear();
    state.mempool.clear();
    let genesis = self.genesis.clone();
    for (height, block) in std::iter::once(&genesis).chain(blocks.iter()).enumerate() {
      let hash = block.block_hash();
      state.hashes.push(hash);
      state.blocks.insert(hash, block.clone());
      for tx in &block.txdata {
        let txid = tx.compute_txid();
        for input in &tx.input {
          if !input.previous_output.is_null() {
            state.utxos.remove(&input.previous_output);
          }
        }
        for (vout, output) in tx.output.iter().enumerate() {
          if !output.script_pubkey.is_op_return() {
            state.utxos.insert(
              OutPoint {
                txid,
                vout: vout as u32,
              },
              output.value,
            );
          }
        }
        state.transactions.insert(txid, tx.clone());
        state
          .txid_to_block_height
          .insert(txid, u32::try_from(height).unwrap());
      }
    }
  }

  pub fn height(&self) -> u32 {
    u32::try_from(self.handle.state().hashes.len() - 1).unwrap()
  }

  /// Appends one block to the active chain.
  pub fn append_block(&self, block: &Block) {
    let mut state = self.handle.state();
    let height = state.hashes.len();
    let hash = block.block_hash();
    state.hashes.push(hash);
    state.blocks.insert(hash, block.clone());
    for tx in &block.txdata {
      let txid = tx.compute_txid();
      for input in &tx.input {
        if !input.previous_output.is_null() {
          state.utxos.remove(&input.previous_output);
        }
      }
      for (vout, output) in tx.output.iter().enumerate() {
        if !output.script_pubkey.is_op_return() {
          state.utxos.insert(
            OutPoint {
              txid,
              vout: vout as u32,
            },
            output.value,
          );
        }
      }
      state.transactions.insert(txid, tx.clone());
      state
        .txid_to_block_height
        .insert(txid, u32::try_from(height).unwrap());
    }
  }
}

#[derive(Clone, Debug, PartialEq, Eq, Hash, serde::Serialize, serde::Deserialize)]
pub struct IndexConfig {
  pub sats: bool,
  pub addresses: bool,
  pub transactions: bool,
  pub runes: bool,
  pub no_inscriptions: bool,
  pub commit_interval: usize,
  pub savepoint_interval: usize,
  pub max_savepoints: usize,
  pub integration_test: bool,
  pub first_inscription_height: Option<u32>,
}

impl Default for IndexConfig {
  fn default() -> Self {
    Self {
      sats: true,
      addresses: false,
      transactions: false,
      runes: true,
      no_inscriptions: false,
      commit_interval: 5000,
      savepoint_interval: 10,
      max_savepoints: 2,
      integration_test: true,
      first_inscription_height: None,
    }
  }
}

fn chain_name(network: Network) -> &'static str {
  match network {
    Network::Bitcoin => "mainnet",
    Network::Regtest => "regtest",
    Network::Signet => "signet",
    Network::Testnet => "testnet",
    Network::Testnet4 => "testnet4",
    _ => "regtest",
  }
}

pub fn settings_for(node: &Node, data_dir: &Path, config: &IndexConfig) -> Result<Settings> {
  let mut args: Vec<String> = vec![
    "ord".into(),
    "--chain".into(),
    chain_name(node.network).into(),
    "--bitcoin-rpc-url".into(),
    node.url(),
    "--cookie-file".into(),
    node.cookie_file().display().to_string(),
    "--data-dir".into(),
    data_dir.display().to_string(),
    "--index-cache-size".into(),
    (16usize << 20).to_string(),
    "--commit-interval".into(),
    config.commit_interval.to_string(),
    "--savepoint-interval".into(),
    config.savepoint_interval.to_string(),
    "--max-savepoints".into(),
    config.max_savepoints.to_string(),
    "--bitcoin-rpc-limit".into(),
    "2".into(),
  ];
  if config.sats {
    args.push("--index-sats".into());
  }
  if config.addresses {
    args.push("--index-addresses".into());
  }
  if config.transactions {
    args.push("--index-transactions".into());
  }
  if config.runes {
    args.push("--index-runes".into());
  }
  if config.no_inscriptions {
    args.push("--no-index-inscriptions".into());
  }
  if config.integration_test {
    args.push("--integration-test".into());
  }
  use clap::Parser;
  let options = Options::try_parse_from(args).map_err(|e| anyhow!("options: {e}"))?;
  let settings = Settings::merge(options, BTreeMap::new()).context("settings")?;
  ord::verif::set_first_inscription_height(settings.index(), config.first_inscription_height);
  Ok(settings)
}

pub fn open_index(node: &Node, data_dir: &Path, config: &IndexConfig) -> Result<Index> {
  let settings = settings_for(node, data_dir, config)?;
  Index::open(&settings)
}

pub fn open_index_with_events(
  node: &Node,
  data_dir: &Path,
  config: &IndexConfig,
  sender: tokio::sync::mpsc::Sender<Event>,
) -> Result<Index> {
  let settings = settings_for(node, data_dir, config)?;
  Index::open_with_event_sender(&settings, Some(sender))
}

/// Removes scratch directories left behind by runs that were killed (a
/// normal run removes its own); only those older than six hours, so that a
/// concurrent run is never touched.
pub fn remove_stale_scratch_dirs() {
  for base in [Path::new("/dev/shm").to_path_buf(), std::env::temp_dir()] {
    let Ok(entries) = std::fs::read_dir(&base) else {
      continue;
    };
    for entry in entries.flatten() {
      if !entry.file_name().to_string_lossy().starts_with("ordverif-") {
        continue;
      }
      let old = entry
        .metadata()
        .and_then(|m| m.modified())
        .ok()
        .and_then(|t| t.elapsed().ok())
        .is_some_and(|age| age.as_secs() > 6 * 3600);
      if old {
        let _ = std::fs::remove_dir_all(entry.path());
      }
    }
  }
}

/// A fresh scratch directory, in memory when /dev/shm exists.
pub fn scratch_dir() -> tempfile::TempDir {
  let base = Path::new("/dev/shm");
  if base.is_dir() {
    tempfile::Builder::new()
      .prefix("ordverif-")
      .tempdir_in(base)
      .unwrap()
  } else {
    tempfile::Builder::new()
      .prefix("ordverif-")
      .tempdir()
      .unwrap()
  }
}

// ---------------------------------------------------------- block building

pub fn coinbase_input(height: u32, extra: u32) -> TxIn {
  TxIn {
    previous_output: OutPoint::null(),
    // BIP34-style height push, plus an extra nonce so that competing
    // branches never share a coinbase txid
    script_sig: bitcoin::script::Builder::new()
      .push_int(i64::from(height))
      .push_int(i64::from(extra))
      .into_script(),
    sequence: Sequence::MAX,
    witness: Witness::new(),
  }
}

pub fn make_block(prev: BlockHash, height: u32, nonce: u32, txdata: Vec<Transaction>) -> Block {
  Block {
    header: Header {
      version: bitcoin::block::Version::ONE,
      prev_blockhash: prev,
      merkle_root: TxMerkleNode::all_zeros(),
      time: height,
      bits: CompactTarget::from_consensus(0),
      nonce,
    },
    txdata,
  }
}

pub fn simple_tx(inputs: Vec<TxIn>, outputs: Vec<TxOut>) -> Transaction {
  Transaction {
    version: Version(2),
    lock_time: LockTime::ZERO,
    input: inputs,
    output: outputs,
  }
}

pub fn txout(value: u64, script: ScriptBuf) -> TxOut {
  TxOut {
    value: Amount::from_sat(value),
    script_pubkey: script,
  }
}

pub fn null_hash() -> BlockHash {
  BlockHash::all_zeros()
}
