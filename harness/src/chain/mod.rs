//! Generation of valid chains: a `ChainSpec` (what proptest generates and
//! shrinks) and its interpreter, which expands a spec into concrete blocks
//! that are valid by construction (section 3 of DESIGN.md).

use {
  crate::{
    model::{is_op_return, subsidy},
    node::{coinbase_input, make_block},
    util::pick_index,
  },
  bitcoin::{
    Amount, Block, BlockHash, OutPoint, ScriptBuf, Sequence, Transaction, TxIn, TxOut, Witness,
    absolute::LockTime, transaction::Version,
  },
  ordinals::{Edict, Etching, Rune, RuneId, Runestone, Terms},
  serde::{Deserialize, Serialize},
  std::collections::BTreeMap,
};

pub mod strategy;

#[derive(Clone, Debug, Serialize, Deserialize, PartialEq)]
pub enum ScriptKind {
  P2tr(u8),
  P2wpkh(u8),
  OpReturn(Vec<u8>),
  Empty,
  Raw(Vec<u8>),
}

impl ScriptKind {
  pub fn script(&self) -> ScriptBuf {
    match self {
      ScriptKind::P2tr(k) => {
        let mut v = vec![0x51, 0x20];
        v.extend([*k; 32]);
        ScriptBuf::from_bytes(v)
      }
      ScriptKind::P2wpkh(k) => {
        let mut v = vec![0x00, 0x14];
        v.extend([*k; 20]);
        ScriptBuf::from_bytes(v)
      }
      ScriptKind::OpReturn(data) => {
        let mut v = vec![0x6a];
        let data = &data[..data.len().min(70)];
        if !data.is_empty() {
          v.push(data.len() as u8);
          v.extend(data);
        }
        ScriptBuf::from_bytes(v)
      }
      ScriptKind::Empty => ScriptBuf::new(),
      ScriptKind::Raw(bytes) => {
        // never an OP_RETURN by accident: those are generated explicitly
        let mut v = bytes.clone();
        if v.first() == Some(&0x6a) {
          v[0] = 0x51;
        }
        ScriptBuf::from_bytes(v)
      }
    }
  }
}

#[derive(Clone, Debug, Serialize, Deserialize, PartialEq)]
pub struct OutSpec {
  pub weight: u16,
  pub zero: bool,
  pub script: ScriptKind,
}

#[derive(Clone, Debug, Serialize, Deserialize, PartialEq)]
pub enum FeeSpec {
  Zero,
  Ppm(u32),
  Sats(u64),
  All,
}

#[derive(Clone, Debug, Serialize, Deserialize, PartialEq)]
pub enum InputSel {
  Any(u16),
  Inscribed(u16),
  Runic(u16),
  ZeroValue(u16),
  SameBlock(u16),
  /// a P2TR output at least `min_age` blocks old (for rune commitments)
  AgedTaproot(u16, u8),
  Newest(u16),
}

#[derive(Clone, Debug, Serialize, Deserialize, PartialEq)]
pub enum PointerSpec {
  None,
  /// fraction (16 bit) of the transaction's total output value
  Inside(u16),
  /// start of output k (mod outputs)
  OutputStart(u8),
  EqualTotal,
  Beyond(u32),
  /// value with trailing zero bytes (still the same number)
  PaddedZeros(u16, u8),
  /// nine significant bytes: not a pointer
  NineBytes,
}

#[derive(Clone, Debug, Serialize, Deserialize, PartialEq)]
pub enum ParentRef {
  /// some existing inscription (index into the creation-ordered list)
  Existing(u16),
  /// an inscription in one of this transaction's inputs, if any
  InInputs(u16),
  /// an id that does not exist
  Absent(u8),
  /// the k-th envelope of this very transaction
  SameTx(u8),
  /// the same parent as the previous entry, optionally in the other byte encoding
  Repeat(bool),
}

#[derive(Clone, Debug, Serialize, Deserialize, PartialEq, Default)]
pub struct EnvelopeSpec {
  pub content_type: Option<u8>,
  pub body: Option<Vec<u8>>,
  pub pointer: Option<PointerSpec>,
  pub parents: Vec<ParentRef>,
  pub delegate: Option<ParentRef>,
  pub metaprotocol: bool,
  pub unknown_even: bool,
  pub unknown_odd: bool,
  pub duplicate: bool,
  pub incomplete: bool,
  pub pushnum: bool,
  pub stutter: bool,
  /// envelope without OP_ENDIF (not an envelope at all)
  pub unterminated: bool,
}

#[derive(Clone, Debug, Serialize, Deserialize, PartialEq)]
pub enum WitnessSpec {
  None,
  Envelopes(Vec<EnvelopeSpec>),
  /// tapscript that commits to the rune of this transaction's etching
  /// (`exact` false = a wrong commitment)
  Commit { exact: bool, trailing_zero: bool },
  Raw(Vec<Vec<u8>>),
}

#[derive(Clone, Debug, Serialize, Deserialize, PartialEq)]
pub enum RuneRef {
  /// k-th etched rune (creation order)
  Existing(u16),
  /// 0:0 (the rune etched in this transaction)
  Zero,
  Unknown(u32, u16),
  /// a rune that will be etched later in this block (same height, tx index + k)
  LaterInBlock(u8),
}

#[derive(Clone, Debug, Serialize, Deserialize, PartialEq)]
pub enum AmountSpec {
  Zero,
  Small(u32),
  /// fraction (16 bit) of the input balance of that rune
  Fraction(u16),
  Balance,
  OverBalance(u32),
  Max,
  Raw(String),
}

#[derive(Clone, Debug, Serialize, Deserialize, PartialEq)]
pub struct EdictSpec {
  pub rune: RuneRef,
  pub amount: AmountSpec,
  /// output index; `split` = number of outputs (all non-OP_RETURN outputs)
  pub output: u8,
  pub split: bool,
}

#[derive(Clone, Debug, Serialize, Deserialize, PartialEq)]
pub enum NameSpec {
  /// a fresh name that is valid at this height (at or above the minimum)
  Valid(u32),
  /// minimum at this height plus delta (may be negative: below the minimum)
  AroundMinimum(i8),
  Reserved(u16),
  /// the name of an already etched rune
  Duplicate(u16),
  Unnamed,
  Raw(String),
}

#[derive(Clone, Debug, Serialize, Deserialize, PartialEq, Default)]
pub struct TermsSpec {
  pub amount: Option<AmountSpec>,
  pub cap: Option<AmountSpec>,
  /// absolute heights relative to the etching height (value = height + delta)
  pub height_start: Option<i8>,
  pub height_end: Option<i8>,
  pub offset_start: Option<u64>,
  pub offset_end: Option<u64>,
}

#[derive(Clone, Debug, Serialize, Deserialize, PartialEq)]
pub struct EtchingSpec {
  pub name: NameSpec,
  pub premine: Option<AmountSpec>,
  pub divisibility: Option<u8>,
  pub spacers: Option<u32>,
  pub symbol: Option<char>,
  pub terms: Option<TermsSpec>,
  pub turbo: bool,
}

#[derive(Clone, Debug, Serialize, Deserialize, PartialEq)]
pub enum FlawSpec {
  /// extra unrecognised even tag in the payload
  EvenTag,
  UnknownFlag,
  /// trailing integer after the edicts
  TrailingInteger,
  /// non-push opcode at the end of the script
  Opcode,
  /// edict with an output beyond the outputs
  EdictOutput,
  /// truncated final varint
  Varint,
}

#[derive(Clone, Debug, Serialize, Deserialize, PartialEq)]
pub enum RunestoneSpec {
  Structured {
    etching: Option<EtchingSpec>,
    mint: Option<RuneRef>,
    pointer: Option<u8>,
    edicts: Vec<EdictSpec>,
    flaw: Option<FlawSpec>,
    /// position of the OP_RETURN output among the outputs
    position: u8,
  },
  RawPayload(Vec<u8>, u8),
}

#[derive(Clone, Debug, Serialize, Deserialize, PartialEq)]
pub struct TxSpec {
  pub inputs: Vec<InputSel>,
  pub outputs: Vec<OutSpec>,
  pub fee: FeeSpec,
  pub witnesses: Vec<WitnessSpec>,
  pub runestone: Option<RunestoneSpec>,
}

#[derive(Clone, Debug, Serialize, Deserialize, PartialEq)]
pub enum ClaimSpec {
  Full,
  /// claims this many ppm less than allowed
  Under(u32),
  UnderSats(u64),
  Zero,
}

#[derive(Clone, Debug, Serialize, Deserialize, PartialEq)]
pub struct CoinbaseSpec {
  pub outputs: Vec<OutSpec>,
  pub claim: ClaimSpec,
  /// byte-identical copy of an earlier coinbase (duplicate txid), when valid
  pub duplicate_of_earlier: Option<u16>,
  pub runestone: Option<RunestoneSpec>,
}

#[derive(Clone, Debug, Serialize, Deserialize, PartialEq)]
pub struct BlockSpec {
  pub coinbase: CoinbaseSpec,
  pub txs: Vec<TxSpec>,
}

#[derive(Clone, Debug, Serialize, Deserialize, PartialEq)]
pub struct ChainSpec {
  /// empty (coinbase-only) blocks mined before the generated ones
  pub prefix: u16,
  pub blocks: Vec<BlockSpec>,
}

// ----------------------------------------------------------- interpreter

#[derive(Clone, Debug)]
pub struct LiveUtxo {
  pub value: u64,
  pub script: Vec<u8>,
  pub height: u32,
  /// steering hints only (never used by an oracle)
  pub inscribed: bool,
  pub runic: bool,
  pub coinbase: bool,
}

#[derive(Clone, Debug, Default)]
pub struct BuildStats {
  pub blocks: u32,
  pub txs: u32,
  pub fee_paying_txs_max_per_block: u32,
  pub same_block_spends: u32,
  pub multi_output_coinbases: u32,
  pub underpaying_coinbases: u32,
  pub duplicate_txids: u32,
  pub zero_value_outputs: u32,
  pub op_return_outputs: u32,
  pub envelopes: u32,
  pub runestones: u32,
  pub etchings: u32,
  pub commits: u32,
  pub skipped_txs: u32,
}

#[derive(Clone, Debug)]
pub struct EtchedHint {
  pub id: RuneId,
  pub rune: Rune,
}

pub struct Builder {
  pub network: bitcoin::Network,
  pub blocks: Vec<Block>,
  pub tip: BlockHash,
  pub live: BTreeMap<OutPoint, LiveUtxo>,
  /// creation order of live outputs (for monotone index resolution)
  pub order: Vec<OutPoint>,
  pub inscription_ids: Vec<(bitcoin::Txid, u32)>,
  pub etched: Vec<EtchedHint>,
  pub stats: BuildStats,
  pub branch: u32,
  pub used_names: std::collections::BTreeSet<u128>,
  pub coinbases: Vec<Transaction>,
  /// steering only: the rune state after the blocks built so far
  pub rune_hint: crate::model::runes::RefRunes,
}

fn amount(spec: &AmountSpec, balance: u128) -> u128 {
  match spec {
    AmountSpec::Zero => 0,
    AmountSpec::Small(n) => u128::from(*n),
    AmountSpec::Fraction(f) => {
      // exact: balance * f / 65536 without overflow
      (balance >> 16) * u128::from(*f) + (((balance & 0xffff) * u128::from(*f)) >> 16)
    }
    AmountSpec::Balance => balance,
    AmountSpec::OverBalance(n) => balance.saturating_add(u128::from(*n) + 1),
    AmountSpec::Max => u128::MAX,
    AmountSpec::Raw(s) => s.parse().unwrap_or(0),
  }
}

pub fn envelope_script(spec: &EnvelopeSpec, pointer: Option<Vec<u8>>, parents: &[Vec<u8>], delegate: Option<Vec<u8>>) -> Vec<u8> {
  fn push(out: &mut Vec<u8>, data: &[u8]) {
    let n = data.len();
    if n <= 75 {
      out.push(n as u8);
    } else if n <= 255 {
      out.push(0x4c);
      out.push(n as u8);
    } else {
      out.push(0x4d);
      out.extend((n as u16).to_le_bytes());
    }
    out.extend(data);
  }
  let mut s = Vec::new();
  if spec.stutter {
    s.push(0x00);
  }
  s.extend([0x00, 0x63]); // OP_FALSE OP_IF
  push(&mut s, b"ord");
  let tag = |out: &mut Vec<u8>, t: u8, pushnum: bool| {
    if pushnum && (1..=16).contains(&t) {
      out.push(0x50 + t); // OP_PUSHNUM_t
    } else {
      push(out, &[t]);
    }
  };
  let first_tag = std::cell::Cell::new(true);
  let field = |out: &mut Vec<u8>, t: u8, value: &[u8]| {
    tag(out, t, spec.pushnum && first_tag.get());
    first_tag.set(false);
    push(out, value);
  };
  if let Some(ct) = spec.content_type {
    let types: [&[u8]; 5] = [b"text/plain;charset=utf-8", b"image/png", b"text/html", b"application/json", b"\xff\xfe"];
    let value = types[usize::from(ct) % types.len()];
    field(&mut s, 1, value);
    if spec.duplicate {
      field(&mut s, 1, b"image/gif");
    }
  } else if spec.duplicate {
    field(&mut s, 9, b"br");
    field(&mut s, 9, b"gzip");
  }
  if spec.metaprotocol {
    field(&mut s, 7, b"proto");
  }
  for parent in parents {
    field(&mut s, 3, parent);
  }
  if let Some(delegate) = &delegate {
    field(&mut s, 11, delegate);
  }
  if let Some(pointer) = &pointer {
    field(&mut s, 2, pointer);
  }
  if spec.unknown_odd {
    field(&mut s, 21, b"odd");
  }
  if spec.unknown_even {
    field(&mut s, 66, b"even");
  }
  if spec.pushnum && first_tag.get() {
    // no field so far: a pushnum tag with a value so that the flag is set
    field(&mut s, 15, b"note");
  }
  if spec.incomplete {
    push(&mut s, &[5]);
  } else if let Some(body) = &spec.body {
    push(&mut s, &[]);
    for chunk in body.chunks(520) {
      push(&mut s, chunk);
    }
  }
  if !spec.unterminated {
    s.push(0x68);
  }
  s
}

pub fn inscription_id_value(txid: &bitcoin::Txid, index: u32, fixed_width: bool) -> Vec<u8> {
  use bitcoin::hashes::Hash;
  let mut v = txid.to_byte_array().to_vec();
  let bytes = index.to_le_bytes();
  if fixed_width {
    v.extend(bytes);
  } else {
    let mut n = 4;
    while n > 0 && bytes[n - 1] == 0 {
      n -= 1;
    }
    v.extend(&bytes[..n]);
  }
  v
}

fn pointer_bytes(spec: &PointerSpec, total_output: u64, output_starts: &[u64]) -> Option<Vec<u8>> {
  let value = |n: u64| {
    let mut b = n.to_le_bytes().to_vec();
    while b.last() == Some(&0) {
      b.pop();
    }
    b
  };
  Some(match spec {
    PointerSpec::None => return None,
    PointerSpec::Inside(f) => value(((u128::from(*f) * u128::from(total_output)) >> 16) as u64),
    PointerSpec::OutputStart(k) => {
      if output_starts.is_empty() {
        value(0)
      } else {
        value(output_starts[usize::from(*k) % output_starts.len()])
      }
    }
    PointerSpec::EqualTotal => value(total_output),
    PointerSpec::Beyond(n) => value(total_output.saturating_add(u64::from(*n) + 1)),
    PointerSpec::PaddedZeros(f, pad) => {
      let mut b = value(((u128::from(*f) * u128::from(total_output)) >> 16) as u64);
      b.extend(std::iter::repeat_n(0u8, usize::from(*pad % 12) + 1));
      b
    }
    PointerSpec::NineBytes => vec![1, 0, 0, 0, 0, 0, 0, 0, 1],
  })
}

impl Builder {
  pub fn new(network: bitcoin::Network, branch: u32) -> Self {
    let genesis = bitcoin::blockdata::constants::genesis_block(network);
    Self {
      network,
      tip: genesis.block_hash(),
      blocks: Vec::new(),
      live: BTreeMap::new(),
      order: Vec::new(),
      inscription_ids: Vec::new(),
      etched: Vec::new(),
      stats: BuildStats::default(),
      branch,
      used_names: Default::default(),
      coinbases: Vec::new(),
      rune_hint: {
        let mut m = crate::model::runes::RefRunes::new(network, 0);
        m.apply_block(&genesis);
        m
      },
    }
  }

  /// Height of the next block.
  pub fn height(&self) -> u32 {
    self.blocks.len() as u32 + 1
  }

  fn candidates(&self, filter: impl Fn(&OutPoint, &LiveUtxo) -> bool) -> Vec<OutPoint> {
    self
      .order
      .iter()
      .filter(|op| self.live.get(op).is_some_and(|u| filter(op, u)))
      .copied()
      .collect()
  }

  fn resolve_input(&self, sel: &InputSel, block_created: &[OutPoint], taken: &[OutPoint]) -> Option<OutPoint> {
    let height = self.height();
    let free = |op: &OutPoint, u: &LiveUtxo| !taken.contains(op) && !is_op_return(&u.script);
    let pick = |list: Vec<OutPoint>, c: u16| {
      if list.is_empty() {
        None
      } else {
        Some(list[pick_index(c, list.len())])
      }
    };
    match sel {
      InputSel::Any(c) => pick(self.candidates(free), *c),
      InputSel::Newest(c) => {
        let list = self.candidates(free);
        if list.is_empty() {
          None
        } else {
          let window = list.len().min(6);
          Some(list[list.len() - 1 - pick_index(*c, window)])
        }
      }
      InputSel::Inscribed(c) => pick(self.candidates(|op, u| free(op, u) && u.inscribed), *c)
        .or_else(|| pick(self.candidates(free), *c)),
      InputSel::Runic(c) => pick(self.candidates(|op, u| free(op, u) && u.runic), *c)
        .or_else(|| pick(self.candidates(free), *c)),
      InputSel::ZeroValue(c) => pick(self.candidates(|op, u| free(op, u) && u.value == 0), *c)
        .or_else(|| pick(self.candidates(free), *c)),
      InputSel::SameBlock(c) => pick(
        block_created
          .iter()
          .filter(|op| self.live.get(op).is_some_and(|u| free(op, u)))
          .copied()
          .collect(),
        *c,
      )
      .or_else(|| pick(self.candidates(free), *c)),
      InputSel::AgedTaproot(c, min_age) => pick(
        self.candidates(|op, u| {
          free(op, u)
            && u.script.len() == 34
            && u.script[0] == 0x51
            && u.script[1] == 0x20
            && height >= u.height + u32::from(*min_age)
        }),
        *c,
      )
      .or_else(|| {
        pick(
          self.candidates(|op, u| free(op, u) && u.script.len() == 34 && u.script[0] == 0x51),
          *c,
        )
      })
      .or_else(|| pick(self.candidates(free), *c)),
    }
  }

  fn fresh_name(&mut self, minimum: u128, k: u32) -> u128 {
    let mut n = minimum.saturating_add(u128::from(k) * 7 + 1);
    while self.used_names.contains(&n) {
      n += 1;
    }
    n
  }

  /// Builds the runestone script for a transaction. Returns the script and
  /// the rune it tries to etch (for the commitment witness).
  fn runestone_script(
    &mut self,
    spec: &RunestoneSpec,
    outputs_after: usize,
    input_balances: &BTreeMap<RuneId, u128>,
    tx_index: u32,
  ) -> (Vec<u8>, Option<Rune>) {
    match spec {
      RunestoneSpec::RawPayload(payload, _) => {
        let mut s = vec![0x6a, 0x5d];
        let payload = &payload[..payload.len().min(200)];
        if payload.len() <= 75 {
          s.push(payload.len() as u8);
        } else {
          s.push(0x4c);
          s.push(payload.len() as u8);
        }
        s.extend(payload);
        (s, None)
      }
      RunestoneSpec::Structured {
        etching,
        mint,
        pointer,
        edicts,
        flaw,
        ..
      } => {
        let height = self.height();
        let rune_id = |r: &RuneRef, me: &Self| -> RuneId {
          match r {
            RuneRef::Existing(k) => {
              if me.etched.is_empty() {
                RuneId { block: 1, tx: 1 }
              } else {
                me.etched[pick_index(*k, me.etched.len())].id
              }
            }
            RuneRef::Zero => RuneId { block: 0, tx: 0 },
            RuneRef::Unknown(b, t) => RuneId {
              block: u64::from(*b) + 1_000_000,
              tx: u32::from(*t),
            },
            RuneRef::LaterInBlock(k) => RuneId {
              block: u64::from(height),
              tx: tx_index + 1 + u32::from(*k % 3),
            },
          }
        };
        let mut etched_rune = None;
        let etching = etching.as_ref().map(|e| {
          let minimum = Rune::minimum_at_height(self.network, ordinals::Height(height)).0;
          let rune = match &e.name {
            NameSpec::Valid(k) => Some(self.fresh_name(minimum, *k)),
            NameSpec::AroundMinimum(d) => Some(if *d >= 0 {
              minimum.saturating_add(*d as u128)
            } else {
              minimum.saturating_sub((-i32::from(*d)) as u128)
            }),
            NameSpec::Reserved(k) => Some(Rune::RESERVED + u128::from(*k)),
            NameSpec::Duplicate(k) => {
              if self.etched.is_empty() {
                Some(self.fresh_name(minimum, u32::from(*k)))
              } else {
                Some(self.etched[pick_index(*k, self.etched.len())].rune.0)
              }
            }
            NameSpec::Unnamed => None,
            NameSpec::Raw(s) => Some(s.parse().unwrap_or(0)),
          };
          if let Some(r) = rune {
            self.used_names.insert(r);
            etched_rune = Some(Rune(r));
          }
          let balance_hint = 1_000_000u128;
          Etching {
            divisibility: e.divisibility.map(|d| d % 39),
            premine: e.premine.as_ref().map(|a| amount(a, balance_hint)),
            rune: rune.map(Rune),
            spacers: e.spacers.map(|s| s & Etching::MAX_SPACERS),
            symbol: e.symbol,
            terms: e.terms.as_ref().map(|t| Terms {
              amount: t.amount.as_ref().map(|a| amount(a, 1000)),
              cap: t.cap.as_ref().map(|a| amount(a, 5)),
              height: (
                t.height_start.map(|d| (i64::from(height) + i64::from(d)).max(0) as u64),
                t.height_end.map(|d| (i64::from(height) + i64::from(d)).max(0) as u64),
              ),
              offset: (t.offset_start, t.offset_end),
            }),
            turbo: e.turbo,
          }
        });
        // keep the supply within u128 unless a flaw is wanted anyway
        let etching = etching.map(|mut e| {
          if e.supply().is_none() {
            if let Some(t) = e.terms.as_mut() {
              t.cap = Some(1);
            }
            if e.supply().is_none() {
              e.premine = Some(1);
            }
          }
          e
        });
        let n_outputs = outputs_after as u32;
        let mut edict_list: Vec<Edict> = edicts
          .iter()
          .map(|e| {
            let id = rune_id(&e.rune, self);
            (e, id)
          })
          .map(|(e, id)| Edict {
            id,
            amount: amount(&e.amount, input_balances.get(&id).copied().unwrap_or(1_000_000)),
            output: if e.split {
              n_outputs
            } else {
              u32::from(e.output) % n_outputs.max(1)
            },
          })
          .collect();
        if matches!(flaw, Some(FlawSpec::EdictOutput)) {
          edict_list.push(Edict {
            id: RuneId { block: 1, tx: 0 },
            amount: 1,
            output: n_outputs + 1,
          });
        }
        let runestone = Runestone {
          edicts: edict_list,
          etching,
          mint: mint.as_ref().map(|r| rune_id(r, self)),
          pointer: pointer.map(|p| u32::from(p) % n_outputs.max(1)),
        };
        let mut script = runestone.encipher().to_bytes();
        // flaws appended at script level
        match flaw {
          Some(FlawSpec::Opcode) => script.push(0x51),
          Some(FlawSpec::EvenTag) => {
            // new push with tag 100 value 1 before... simplest: re-encode payload
            script = Self::append_payload(script, &[100, 1], runestone.edicts.is_empty());
          }
          Some(FlawSpec::UnknownFlag) => {
            script = Self::prepend_payload(script, &[2, 1 << 5]);
          }
          Some(FlawSpec::TrailingInteger) => {
            if runestone.edicts.is_empty() {
              script = Self::append_payload(script, &[0, 1], true);
            } else {
              script = Self::append_payload(script, &[7], true);
            }
          }
          Some(FlawSpec::Varint) => {
            script = Self::append_raw(script, &[0x80]);
          }
          _ => {}
        }
        (script, etched_rune)
      }
    }
  }

  fn payload_of(script: &[u8]) -> Vec<u8> {
    // scripts produced by encipher: 6a 5d [pushes]
    let mut payload = Vec::new();
    let mut i = 2;
    while i < script.len() {
      let op = script[i];
      i += 1;
      let n = match op {
        0x00..=0x4b => usize::from(op),
        0x4c => {
          let n = usize::from(script[i]);
          i += 1;
          n
        }
        0x4d => {
          let n = usize::from(u16::from_le_bytes([script[i], script[i + 1]]));
          i += 2;
          n
        }
        _ => 0,
      };
      payload.extend(&script[i..i + n]);
      i += n;
    }
    payload
  }

  fn script_of(payload: &[u8]) -> Vec<u8> {
    let mut s = vec![0x6a, 0x5d];
    for chunk in payload.chunks(520) {
      let n = chunk.len();
      if n <= 75 {
        s.push(n as u8);
      } else if n <= 255 {
        s.push(0x4c);
        s.push(n as u8);
      } else {
        s.push(0x4d);
        s.extend((n as u16).to_le_bytes());
      }
      s.extend(chunk);
    }
    s
  }

  fn append_payload(script: Vec<u8>, ints: &[u128], fields_position: bool) -> Vec<u8> {
    let mut payload = Self::payload_of(&script);
    let mut extra = Vec::new();
    for n in ints {
      ordinals::varint::encode_to_vec(*n, &mut extra);
    }
    if fields_position {
      payload.extend(extra);
    } else {
      // before the body tag is hard to find reliably: prepend instead
      let mut p = extra;
      p.extend(payload);
      payload = p;
    }
    Self::script_of(&payload)
  }

  fn prepend_payload(script: Vec<u8>, ints: &[u128]) -> Vec<u8> {
    let payload = Self::payload_of(&script);
    let mut p = Vec::new();
    for n in ints {
      ordinals::varint::encode_to_vec(*n, &mut p);
    }
    p.extend(payload);
    Self::script_of(&p)
  }

  fn append_raw(script: Vec<u8>, bytes: &[u8]) -> Vec<u8> {
    let mut payload = Self::payload_of(&script);
    payload.extend(bytes);
    Self::script_of(&payload)
  }

  fn build_tx(&mut self, spec: &TxSpec, block_created: &mut Vec<OutPoint>, tx_index: u32) -> Option<(Transaction, u64)> {
    // inputs
    let mut taken: Vec<OutPoint> = Vec::new();
    for sel in &spec.inputs {
      if let Some(op) = self.resolve_input(sel, block_created, &taken) {
        taken.push(op);
      }
    }
    if taken.is_empty() {
      self.stats.skipped_txs += 1;
      return None;
    }
    let total_in: u64 = taken.iter().map(|op| self.live[op].value).sum();
    let fee = match spec.fee {
      FeeSpec::Zero => 0,
      FeeSpec::Ppm(ppm) => ((u128::from(total_in) * u128::from(ppm.min(1_000_000))) / 1_000_000) as u64,
      FeeSpec::Sats(n) => n.min(total_in),
      FeeSpec::All => total_in,
    };
    let distributable = total_in - fee;
    let mut outputs: Vec<TxOut> = Vec::new();
    let specs: Vec<&OutSpec> = spec.outputs.iter().collect();
    let weight_sum: u64 = specs.iter().filter(|o| !o.zero).map(|o| u64::from(o.weight) + 1).sum();
    let mut assigned = 0u64;
    let last_nonzero = specs.iter().rposition(|o| !o.zero);
    for (i, o) in specs.iter().enumerate() {
      let value = if o.zero || weight_sum == 0 {
        0
      } else if Some(i) == last_nonzero {
        distributable - assigned
      } else {
        ((u128::from(distributable) * u128::from(u64::from(o.weight) + 1)) / u128::from(weight_sum)) as u64
      };
      assigned += value;
      outputs.push(TxOut {
        value: Amount::from_sat(value),
        script_pubkey: o.script.script(),
      });
    }
    // anything not assigned (all outputs zero) becomes fee
    let any_inscribed = taken.iter().any(|op| self.live[op].inscribed);
    let any_runic = taken.iter().any(|op| self.live[op].runic);

    // runestone output
    let mut etched_rune = None;
    let mut has_runestone = false;
    if let Some(rs) = &spec.runestone {
      let position = match rs {
        RunestoneSpec::Structured { position, .. } => *position,
        RunestoneSpec::RawPayload(_, position) => *position,
      };
      let n_after = outputs.len() + 1;
      let mut input_balances: BTreeMap<RuneId, u128> = BTreeMap::new();
      for op in &taken {
        if let Some(b) = self.rune_hint.balances.get(op) {
          for (id, amount) in b {
            *input_balances.entry(*id).or_default() += amount;
          }
        }
      }
      let (script, rune) = self.runestone_script(rs, n_after, &input_balances, tx_index);
      etched_rune = rune;
      let at = usize::from(position) % (outputs.len() + 1);
      outputs.insert(
        at,
        TxOut {
          value: Amount::from_sat(0),
          script_pubkey: ScriptBuf::from_bytes(script),
        },
      );
      has_runestone = true;
      self.stats.runestones += 1;
    }
    if outputs.is_empty() {
      // a transaction needs an output: a zero-value one
      outputs.push(TxOut {
        value: Amount::from_sat(0),
        script_pubkey: ScriptKind::P2tr(9).script(),
      });
    }
    let total_out: u64 = outputs.iter().map(|o| o.value.to_sat()).sum();
    let mut output_starts = Vec::new();
    let mut acc = 0u64;
    for o in &outputs {
      output_starts.push(acc);
      acc += o.value.to_sat();
    }

    // witnesses
    let mut inputs: Vec<TxIn> = Vec::new();
    let mut envelope_count = 0u32;
    // ids of envelopes of this tx are (txid, k) but txid depends on... the
    // txid does NOT commit to witnesses, so it is known once inputs and
    // outputs are fixed.
    let skeleton = Transaction {
      version: Version(2),
      lock_time: LockTime::ZERO,
      input: taken
        .iter()
        .map(|op| TxIn {
          previous_output: *op,
          script_sig: ScriptBuf::new(),
          sequence: Sequence::MAX,
          witness: Witness::new(),
        })
        .collect(),
      output: outputs.clone(),
    };
    let txid = skeleton.compute_txid();
    let input_inscriptions: Vec<(bitcoin::Txid, u32)> = Vec::new();
    let _ = &input_inscriptions;
    let mut last_parent: Option<(bitcoin::Txid, u32)> = None;
    for (i, op) in taken.iter().enumerate() {
      let wspec = spec.witnesses.get(i).unwrap_or(&WitnessSpec::None);
      let witness = match wspec {
        WitnessSpec::None => Witness::new(),
        WitnessSpec::Raw(items) => {
          let mut w = Witness::new();
          for item in items {
            w.push(item);
          }
          w
        }
        WitnessSpec::Commit { exact, trailing_zero } => {
          let mut script = Vec::new();
          if let Some(rune) = etched_rune {
            let mut c = rune.commitment();
            if !*exact {
              c.push(1);
            }
            if *trailing_zero {
              c.push(0);
            }
            script.push(c.len() as u8);
            script.extend(c);
            script.push(0x75); // OP_DROP
            self.stats.commits += 1;
          }
          script.push(0x51);
          let mut w = Witness::new();
          w.push(script);
          w.push([0xc0u8; 33]);
          w
        }
        WitnessSpec::Envelopes(envelopes) => {
          let mut script = Vec::new();
          for e in envelopes {
            let resolve = |p: &ParentRef, me: &Self, last: &Option<(bitcoin::Txid, u32)>| -> Option<((bitcoin::Txid, u32), bool)> {
              match p {
                ParentRef::Existing(k) => {
                  if me.inscription_ids.is_empty() {
                    None
                  } else {
                    Some((me.inscription_ids[pick_index(*k, me.inscription_ids.len())], false))
                  }
                }
                ParentRef::InInputs(k) => {
                  // steering: an inscription created in a tx whose output we spend
                  let candidates: Vec<(bitcoin::Txid, u32)> = me
                    .inscription_ids
                    .iter()
                    .filter(|(t, _)| taken.iter().any(|op| op.txid == *t))
                    .copied()
                    .collect();
                  if candidates.is_empty() {
                    if me.inscription_ids.is_empty() {
                      None
                    } else {
                      Some((me.inscription_ids[pick_index(*k, me.inscription_ids.len())], false))
                    }
                  } else {
                    Some((candidates[pick_index(*k, candidates.len())], false))
                  }
                }
                ParentRef::Absent(k) => {
                  use bitcoin::hashes::Hash;
                  Some(((bitcoin::Txid::from_byte_array([*k; 32]), u32::from(*k)), false))
                }
                ParentRef::SameTx(k) => Some(((txid, u32::from(*k % 6)), false)),
                ParentRef::Repeat(other_encoding) => last.map(|l| (l, *other_encoding)),
              }
            };
            let mut parents = Vec::new();
            for p in &e.parents {
              if let Some(((t, idx), fixed)) = resolve(p, self, &last_parent) {
                parents.push(inscription_id_value(&t, idx, fixed));
                last_parent = Some((t, idx));
              }
            }
            let delegate = e
              .delegate
              .as_ref()
              .and_then(|d| resolve(d, self, &last_parent))
              .map(|((t, idx), fixed)| inscription_id_value(&t, idx, fixed));
            let pointer = e
              .pointer
              .as_ref()
              .and_then(|p| pointer_bytes(p, total_out, &output_starts));
            script.extend(envelope_script(e, pointer, &parents, delegate));
            if !e.unterminated {
              envelope_count += 1;
            }
          }
          let mut w = Witness::new();
          w.push(script);
          w.push([0xc0u8; 33]);
          w
        }
      };
      inputs.push(TxIn {
        previous_output: *op,
        script_sig: ScriptBuf::new(),
        sequence: Sequence::MAX,
        witness,
      });
    }
    let tx = Transaction {
      version: Version(2),
      lock_time: LockTime::ZERO,
      input: inputs,
      output: outputs,
    };
    debug_assert_eq!(tx.compute_txid(), txid);

    // bookkeeping (steering hints)
    let real_envelopes = ord::ParsedEnvelope::from_transaction(&tx).len() as u32;
    let _ = envelope_count;
    for k in 0..real_envelopes {
      self.inscription_ids.push((txid, k));
    }
    self.stats.envelopes += real_envelopes;
    for op in &taken {
      if block_created.contains(op) {
        self.stats.same_block_spends += 1;
      }
      self.live.remove(op);
    }
    let height = self.height();
    for (vout, o) in tx.output.iter().enumerate() {
      let op = OutPoint {
        txid,
        vout: vout as u32,
      };
      if o.value.to_sat() == 0 {
        self.stats.zero_value_outputs += 1;
      }
      if o.script_pubkey.is_op_return() {
        self.stats.op_return_outputs += 1;
      }
      self.live.insert(
        op,
        LiveUtxo {
          value: o.value.to_sat(),
          script: o.script_pubkey.to_bytes(),
          height,
          inscribed: any_inscribed || real_envelopes > 0,
          runic: any_runic || has_runestone,
          coinbase: false,
        },
      );
      self.order.push(op);
      block_created.push(op);
    }
    if etched_rune.is_some() || matches!(&spec.runestone, Some(RunestoneSpec::Structured { etching: Some(_), .. })) {
      self.stats.etchings += 1;
      // steering hint: assume the etching succeeds
      let rune = etched_rune.unwrap_or(Rune::reserved(u64::from(height), tx_index));
      self.etched.push(EtchedHint {
        id: RuneId {
          block: u64::from(height),
          tx: tx_index,
        },
        rune,
      });
    }
    self.stats.txs += 1;
    Some((tx, total_in - total_out))
  }

  pub fn add_block(&mut self, spec: &BlockSpec) {
    let height = self.height();
    let mut block_created: Vec<OutPoint> = Vec::new();
    let mut txs: Vec<Transaction> = Vec::new();
    let mut fees: u64 = 0;
    let mut fee_payers = 0;
    for tspec in &spec.txs {
      let tx_index = txs.len() as u32 + 1;
      if let Some((tx, fee)) = self.build_tx(tspec, &mut block_created, tx_index) {
        if fee > 0 {
          fee_payers += 1;
        }
        fees += fee;
        txs.push(tx);
      }
    }
    self.stats.fee_paying_txs_max_per_block = self.stats.fee_paying_txs_max_per_block.max(fee_payers);

    let allowed = subsidy(u64::from(height)) + fees;
    // duplicate of an earlier coinbase, when that is valid here
    let mut coinbase = None;
    if let Some(k) = spec.coinbase.duplicate_of_earlier
      && !self.coinbases.is_empty()
    {
      let earlier = self.coinbases[pick_index(k, self.coinbases.len())].clone();
      let claimed: u64 = earlier.output.iter().map(|o| o.value.to_sat()).sum();
      let txid = earlier.compute_txid();
      // only when the displaced outputs carry nothing but sats
      let displaced_clean = (0..earlier.output.len() as u32).all(|vout| {
        self
          .live
          .get(&OutPoint { txid, vout })
          .is_none_or(|u| !u.inscribed && !u.runic)
      });
      if claimed <= allowed && displaced_clean {
        self.stats.duplicate_txids += 1;
        coinbase = Some(earlier);
      }
    }
    let coinbase = coinbase.unwrap_or_else(|| {
      let claim = match spec.coinbase.claim {
        ClaimSpec::Full => allowed,
        ClaimSpec::Under(ppm) => allowed - ((u128::from(allowed) * u128::from(ppm.min(1_000_000))) / 1_000_000) as u64,
        ClaimSpec::UnderSats(n) => allowed.saturating_sub(n),
        ClaimSpec::Zero => 0,
      };
      if claim < allowed {
        self.stats.underpaying_coinbases += 1;
      }
      let specs = &spec.coinbase.outputs;
      let weight_sum: u64 = specs.iter().filter(|o| !o.zero).map(|o| u64::from(o.weight) + 1).sum();
      let last_nonzero = specs.iter().rposition(|o| !o.zero);
      let mut assigned = 0;
      let mut outputs = Vec::new();
      for (i, o) in specs.iter().enumerate() {
        let value = if o.zero || weight_sum == 0 {
          0
        } else if Some(i) == last_nonzero {
          claim - assigned
        } else {
          ((u128::from(claim) * u128::from(u64::from(o.weight) + 1)) / u128::from(weight_sum)) as u64
        };
        assigned += value;
        outputs.push(TxOut {
          value: Amount::from_sat(value),
          script_pubkey: o.script.script(),
        });
      }
      if let Some(rs) = &spec.coinbase.runestone {
        let n_after = outputs.len() + 1;
        let (script, _) = self.runestone_script(rs, n_after, &BTreeMap::new(), 0);
        outputs.push(TxOut {
          value: Amount::from_sat(0),
          script_pubkey: ScriptBuf::from_bytes(script),
        });
      }
      if outputs.is_empty() {
        outputs.push(TxOut {
          value: Amount::from_sat(0),
          script_pubkey: ScriptKind::P2tr(8).script(),
        });
      }
      if outputs.len() > 1 {
        self.stats.multi_output_coinbases += 1;
      }
      Transaction {
        version: Version(2),
        lock_time: LockTime::ZERO,
        input: vec![coinbase_input(height, self.branch)],
        output: outputs,
      }
    });
    let cb_txid = coinbase.compute_txid();
    for (vout, o) in coinbase.output.iter().enumerate() {
      let op = OutPoint {
        txid: cb_txid,
        vout: vout as u32,
      };
      if self.live.contains_key(&op) {
        self.order.retain(|x| *x != op);
      }
      self.live.insert(
        op,
        LiveUtxo {
          value: o.value.to_sat(),
          script: o.script_pubkey.to_bytes(),
          height,
          inscribed: false,
          runic: false,
          coinbase: true,
        },
      );
      self.order.push(op);
    }
    self.coinbases.push(coinbase.clone());
    let mut txdata = vec![coinbase];
    txdata.extend(txs);
    let block = make_block(self.tip, height, self.branch.wrapping_mul(1_000_003).wrapping_add(height), txdata);
    self.tip = block.block_hash();
    self.rune_hint.apply_block(&block);
    self.blocks.push(block);
    self.stats.blocks += 1;
    // refresh the steering hints from what really happened
    self.etched = self
      .rune_hint
      .entries
      .iter()
      .map(|(id, e)| EtchedHint {
        id: *id,
        rune: Rune(e.rune),
      })
      .collect();
    for (op, u) in self.live.iter_mut() {
      u.runic = self.rune_hint.balances.contains_key(op);
    }
  }

  pub fn add_empty_blocks(&mut self, n: u16) {
    for _ in 0..n {
      self.add_block(&BlockSpec {
        coinbase: CoinbaseSpec {
          outputs: vec![OutSpec {
            weight: 1,
            zero: false,
            script: ScriptKind::P2tr(1),
          }],
          claim: ClaimSpec::Full,
          duplicate_of_earlier: None,
          runestone: None,
        },
        txs: Vec::new(),
      });
    }
  }
}

pub fn build_chain(network: bitcoin::Network, spec: &ChainSpec) -> Builder {
  let mut builder = Builder::new(network, 0);
  builder.add_empty_blocks(spec.prefix);
  for block in &spec.blocks {
    builder.add_block(block);
  }
  builder
}
