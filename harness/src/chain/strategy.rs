//! proptest strategies for `ChainSpec`, parameterised by a profile (which
//! features a property wants to see often).

use {super::*, proptest::{prelude::*, strategy::Union}};

fn optw<T: std::fmt::Debug + Clone + 'static>(p: f64, s: impl Strategy<Value = T> + 'static) -> BoxedStrategy<Option<T>> {
  if p <= 0.0 {
    Just(None).boxed()
  } else if p >= 1.0 {
    s.prop_map(Some).boxed()
  } else {
    proptest::option::weighted(p, s).boxed()
  }
}

fn boolw(p: f64) -> BoxedStrategy<bool> {
  if p <= 0.0 {
    Just(false).boxed()
  } else if p >= 1.0 {
    Just(true).boxed()
  } else {
    proptest::bool::weighted(p).boxed()
  }
}

/// Weighted choice that tolerates zero weights (they are dropped).
fn weighted<T: std::fmt::Debug + 'static>(items: Vec<(u32, BoxedStrategy<T>)>) -> BoxedStrategy<T> {
  let items: Vec<(u32, BoxedStrategy<T>)> = items.into_iter().filter(|(w, _)| *w > 0).collect();
  Union::new_weighted(items).boxed()
}

#[derive(Clone, Debug)]
pub struct Profile {
  pub prefix: Vec<u16>,
  pub blocks: std::ops::Range<usize>,
  pub txs: std::ops::Range<usize>,
  pub max_inputs: usize,
  pub max_outputs: usize,
  pub p_envelopes: f64,
  pub p_raw_witness: f64,
  pub p_runestone: f64,
  pub p_raw_payload: f64,
  pub p_etching: f64,
  pub p_flaw: f64,
  pub p_dup_coinbase: f64,
  pub p_coinbase_runestone: f64,
  pub p_zero_output: f64,
  pub p_op_return_output: f64,
  pub p_odd_script: f64,
  pub max_edicts: usize,
  pub max_envelopes: usize,
  pub script_pool: u8,
  pub p_parents: f64,
  pub big_children: bool,
  /// favour runic inputs, unnamed etchings, premines and open mints
  pub rune_heavy: bool,
  pub inscription_heavy: bool,
}

impl Profile {
  pub fn sats() -> Self {
    Self {
      prefix: vec![0, 0, 0, 2],
      blocks: 2..14,
      txs: 0..5,
      max_inputs: 4,
      max_outputs: 5,
      p_envelopes: 0.0,
      p_raw_witness: 0.0,
      p_runestone: 0.0,
      p_raw_payload: 0.0,
      p_etching: 0.0,
      p_flaw: 0.0,
      p_dup_coinbase: 0.06,
      p_coinbase_runestone: 0.0,
      p_zero_output: 0.12,
      p_op_return_output: 0.08,
      p_odd_script: 0.05,
      max_edicts: 0,
      max_envelopes: 0,
      script_pool: 5,
      p_parents: 0.0,
      big_children: false,
      rune_heavy: false,
      inscription_heavy: false,
    }
  }

  pub fn inscriptions() -> Self {
    Self {
      p_envelopes: 0.45,
      p_raw_witness: 0.03,
      max_envelopes: 4,
      p_dup_coinbase: 0.0,
      p_parents: 0.3,
      inscription_heavy: true,
      ..Self::sats()
    }
  }

  pub fn runes() -> Self {
    Self {
      prefix: vec![0, 0, 6, 8],
      p_runestone: 0.6,
      p_raw_payload: 0.04,
      p_etching: 0.35,
      p_flaw: 0.08,
      p_dup_coinbase: 0.0,
      p_coinbase_runestone: 0.05,
      max_edicts: 6,
      blocks: 3..14,
      rune_heavy: true,
      ..Self::sats()
    }
  }

  pub fn mixed() -> Self {
    Self {
      prefix: vec![0, 0, 6],
      p_envelopes: 0.3,
      p_raw_witness: 0.03,
      max_envelopes: 3,
      p_runestone: 0.35,
      p_raw_payload: 0.03,
      p_etching: 0.3,
      p_flaw: 0.06,
      p_dup_coinbase: 0.0,
      p_coinbase_runestone: 0.03,
      max_edicts: 4,
      p_parents: 0.25,
      ..Self::sats()
    }
  }

  pub fn adversarial() -> Self {
    Self {
      p_envelopes: 0.3,
      p_raw_witness: 0.3,
      p_runestone: 0.3,
      p_raw_payload: 0.3,
      p_flaw: 0.3,
      p_odd_script: 0.2,
      max_outputs: 8,
      max_inputs: 6,
      ..Self::mixed()
    }
  }
}

pub fn script_kind(p: &Profile) -> BoxedStrategy<ScriptKind> {
  let pool = p.script_pool.max(1);
  let odd = p.p_odd_script;
  let opr = p.p_op_return_output;
  let normal = (1.0 - odd - opr).max(0.05);
  weighted(vec![
    ((normal * 700.0) as u32 + 1, (0..pool).prop_map(ScriptKind::P2tr).boxed()),
    ((normal * 300.0) as u32 + 1, (0..pool).prop_map(ScriptKind::P2wpkh).boxed()),
    ((opr * 1000.0) as u32, proptest::collection::vec(any::<u8>(), 0..12).prop_map(ScriptKind::OpReturn).boxed()),
    ((odd * 500.0) as u32, Just(ScriptKind::Empty).boxed()),
    ((odd * 500.0) as u32, proptest::collection::vec(any::<u8>(), 1..30).prop_map(ScriptKind::Raw).boxed()),
  ])
}

pub fn out_spec(p: &Profile) -> BoxedStrategy<OutSpec> {
  (
    prop_oneof![3 => 0u16..10, 1 => any::<u16>()],
    boolw(p.p_zero_output),
    script_kind(p),
  )
    .prop_map(|(weight, zero, script)| OutSpec {
      weight,
      zero,
      script,
    })
    .boxed()
}

pub fn input_sel(p: &Profile) -> BoxedStrategy<InputSel> {
  let runic = if p.rune_heavy { 8 } else { 2 };
  let inscribed = if p.inscription_heavy { 5 } else { 2 };
  prop_oneof![
    4 => any::<u16>().prop_map(InputSel::Any),
    3 => any::<u16>().prop_map(InputSel::Newest),
    inscribed => any::<u16>().prop_map(InputSel::Inscribed),
    runic => any::<u16>().prop_map(InputSel::Runic),
    1 => any::<u16>().prop_map(InputSel::ZeroValue),
    2 => any::<u16>().prop_map(InputSel::SameBlock),
    1 => (any::<u16>(), 5u8..8).prop_map(|(c, a)| InputSel::AgedTaproot(c, a)),
  ]
  .boxed()
}

pub fn fee_spec() -> BoxedStrategy<FeeSpec> {
  prop_oneof![
    4 => Just(FeeSpec::Zero),
    3 => (0u32..1_000_000).prop_map(FeeSpec::Ppm),
    3 => (1u64..5000).prop_map(FeeSpec::Sats),
    1 => Just(FeeSpec::All),
  ]
  .boxed()
}

pub fn pointer_spec() -> BoxedStrategy<PointerSpec> {
  prop_oneof![
    3 => any::<u16>().prop_map(PointerSpec::Inside),
    3 => any::<u8>().prop_map(PointerSpec::OutputStart),
    2 => Just(PointerSpec::EqualTotal),
    1 => (0u32..1000).prop_map(PointerSpec::Beyond),
    1 => (any::<u16>(), any::<u8>()).prop_map(|(f, p)| PointerSpec::PaddedZeros(f, p)),
    1 => Just(PointerSpec::NineBytes),
    1 => Just(PointerSpec::Inside(0)),
  ]
  .boxed()
}

pub fn parent_ref() -> BoxedStrategy<ParentRef> {
  prop_oneof![
    3 => any::<u16>().prop_map(ParentRef::InInputs),
    3 => any::<u16>().prop_map(ParentRef::Existing),
    1 => any::<u8>().prop_map(ParentRef::Absent),
    2 => any::<u8>().prop_map(ParentRef::SameTx),
    2 => any::<bool>().prop_map(ParentRef::Repeat),
  ]
  .boxed()
}

pub fn envelope_spec(p: &Profile) -> BoxedStrategy<EnvelopeSpec> {
  let parents = if p.p_parents > 0.0 {
    weighted(vec![
      (((1.0 - p.p_parents) * 100.0) as u32, Just(Vec::new()).boxed()),
      ((p.p_parents * 100.0) as u32, proptest::collection::vec(parent_ref(), 1..4).boxed()),
    ])
  } else {
    Just(Vec::new()).boxed()
  };
  (
    (
      optw(0.8, 0u8..5),
      optw(0.7, prop_oneof![
        4 => proptest::collection::vec(any::<u8>(), 0..12),
        1 => Just(b"<html>hello</html>".to_vec()),
        1 => (500usize..600).prop_map(|n| vec![7u8; n]),
      ]),
      optw(0.3, pointer_spec()),
      parents,
      optw(0.08, parent_ref()),
      boolw(0.1),
    ),
    (
      boolw(0.07),
      boolw(0.07),
      boolw(0.07),
      boolw(0.07),
      boolw(0.07),
      boolw(0.07),
      boolw(0.03),
    ),
  )
    .prop_map(
      |(
        (content_type, body, pointer, parents, delegate, metaprotocol),
        (unknown_even, unknown_odd, duplicate, incomplete, pushnum, stutter, unterminated),
      )| EnvelopeSpec {
        content_type,
        body,
        pointer,
        parents,
        delegate,
        metaprotocol,
        unknown_even,
        unknown_odd,
        duplicate,
        incomplete,
        pushnum,
        stutter,
        unterminated,
      },
    )
    .boxed()
}

pub fn witness_spec(p: &Profile, with_commit: bool) -> BoxedStrategy<WitnessSpec> {
  let envelopes = if p.max_envelopes > 0 {
    proptest::collection::vec(envelope_spec(p), 1..=p.max_envelopes)
      .prop_map(WitnessSpec::Envelopes)
      .boxed()
  } else {
    Just(WitnessSpec::None).boxed()
  };
  let raw = prop_oneof![
    2 => proptest::collection::vec(crate::props::envelope::script_soup(), 1..4).prop_map(|mut items| {
      items.push(vec![0xc0; 33]);
      WitnessSpec::Raw(items)
    }),
    1 => proptest::collection::vec(proptest::collection::vec(any::<u8>(), 0..40), 0..4).prop_map(WitnessSpec::Raw),
    1 => Just(WitnessSpec::Raw(vec![vec![0u8; 32]])),
  ];
  let commit_weight = if with_commit { 2500 } else { 0 };
  let pe = (p.p_envelopes * 1000.0) as u32;
  let pr = (p.p_raw_witness * 1000.0) as u32;
  let none = 1000u32.saturating_sub(pe + pr).max(1);
  weighted(vec![
    (none, Just(WitnessSpec::None).boxed()),
    (pe, envelopes),
    (pr, raw.boxed()),
    (
      commit_weight,
      (boolw(0.9), boolw(0.05))
        .prop_map(|(exact, trailing_zero)| WitnessSpec::Commit { exact, trailing_zero })
        .boxed(),
    ),
  ])
}

pub fn amount_spec() -> BoxedStrategy<AmountSpec> {
  prop_oneof![
    2 => Just(AmountSpec::Zero),
    3 => (1u32..2000).prop_map(AmountSpec::Small),
    3 => any::<u16>().prop_map(AmountSpec::Fraction),
    2 => Just(AmountSpec::Balance),
    1 => (0u32..100).prop_map(AmountSpec::OverBalance),
    1 => Just(AmountSpec::Max),
  ]
  .boxed()
}

pub fn rune_ref() -> BoxedStrategy<RuneRef> {
  prop_oneof![
    6 => any::<u16>().prop_map(RuneRef::Existing),
    2 => Just(RuneRef::Zero),
    1 => (any::<u32>(), any::<u16>()).prop_map(|(b, t)| RuneRef::Unknown(b, t)),
    1 => any::<u8>().prop_map(RuneRef::LaterInBlock),
  ]
  .boxed()
}

pub fn edict_spec() -> BoxedStrategy<EdictSpec> {
  (
    rune_ref(),
    amount_spec(),
    any::<u8>(),
    boolw(0.25),
  )
    .prop_map(|(rune, amount, output, split)| EdictSpec {
      rune,
      amount,
      output,
      split,
    })
    .boxed()
}

pub fn terms_spec() -> BoxedStrategy<TermsSpec> {
  let offset = || {
    optw(
      0.35,
      prop_oneof![4 => 0u64..6, 1 => Just(u64::MAX), 1 => Just(u64::MAX - 2)],
    )
  };
  (
    optw(0.85, prop_oneof![3 => (1u32..1000).prop_map(AmountSpec::Small), 1 => Just(AmountSpec::Zero), 1 => Just(AmountSpec::Max)]),
    optw(0.8, prop_oneof![4 => (0u32..5).prop_map(AmountSpec::Small), 1 => Just(AmountSpec::Max)]),
    optw(0.35, -2i8..4),
    optw(0.35, -2i8..6),
    offset(),
    offset(),
  )
    .prop_map(|(amount, cap, height_start, height_end, offset_start, offset_end)| TermsSpec {
      amount,
      cap,
      height_start,
      height_end,
      offset_start,
      offset_end,
    })
    .boxed()
}

pub fn etching_spec(p: &Profile) -> BoxedStrategy<EtchingSpec> {
  let heavy = p.rune_heavy;
  let name = prop_oneof![
    8 => (0u32..50).prop_map(NameSpec::Valid),
    2 => (-2i8..3).prop_map(NameSpec::AroundMinimum),
    1 => (0u16..100).prop_map(NameSpec::Reserved),
    2 => any::<u16>().prop_map(NameSpec::Duplicate),
    if heavy { 10 } else { 3 } => Just(NameSpec::Unnamed),
  ];
  (
    name,
    optw(if heavy { 0.8 } else { 0.6 }, prop_oneof![5 => (1u32..100_000).prop_map(AmountSpec::Small), 1 => Just(AmountSpec::Zero), 1 => Just(AmountSpec::Max)]),
    optw(0.4, 0u8..39),
    optw(0.3, any::<u32>()),
    optw(0.3, any::<char>()),
    optw(if heavy { 0.75 } else { 0.6 }, terms_spec()),
    any::<bool>(),
  )
    .prop_map(|(name, premine, divisibility, spacers, symbol, terms, turbo)| EtchingSpec {
      name,
      premine,
      divisibility,
      spacers,
      symbol,
      terms,
      turbo,
    })
    .boxed()
}

pub fn runestone_spec(p: &Profile) -> BoxedStrategy<RunestoneSpec> {
  let flaw = prop_oneof![
    Just(FlawSpec::EvenTag),
    Just(FlawSpec::UnknownFlag),
    Just(FlawSpec::TrailingInteger),
    Just(FlawSpec::Opcode),
    Just(FlawSpec::EdictOutput),
    Just(FlawSpec::Varint),
  ];
  let structured = (
    optw(p.p_etching, etching_spec(p)),
    optw(if p.rune_heavy { 0.55 } else { 0.4 }, rune_ref()),
    optw(0.3, any::<u8>()),
    proptest::collection::vec(edict_spec(), 0..=p.max_edicts),
    optw(p.p_flaw, flaw),
    any::<u8>(),
  )
    .prop_map(|(etching, mint, pointer, edicts, flaw, position)| RunestoneSpec::Structured {
      etching,
      mint,
      pointer,
      edicts,
      flaw,
      position,
    });
  let raw = (proptest::collection::vec(any::<u8>(), 0..40), any::<u8>())
    .prop_map(|(payload, position)| RunestoneSpec::RawPayload(payload, position));
  let pr = (p.p_raw_payload * 1000.0) as u32;
  weighted(vec![(1000 - pr.min(999), structured.boxed()), (pr, raw.boxed())])
}

pub fn tx_spec(p: &Profile) -> BoxedStrategy<TxSpec> {
  let p2 = p.clone();
  let runestone = optw(p.p_runestone, runestone_spec(p));
  (
    proptest::collection::vec(input_sel(p), 1..=p.max_inputs),
    proptest::collection::vec(out_spec(p), 0..=p.max_outputs),
    fee_spec(),
    runestone,
  )
    .prop_flat_map(move |(inputs, outputs, fee, runestone)| {
      let with_commit = matches!(
        &runestone,
        Some(RunestoneSpec::Structured {
          etching: Some(_),
          ..
        })
      );
      let n = inputs.len();
      let mut inputs = inputs;
      if with_commit {
        // etchings usually spend an aged taproot output with the commitment
        inputs[0] = InputSel::AgedTaproot(0, 6);
      }
      let witnesses = (0..n)
        .map(|i| witness_spec(&p2, with_commit && i == 0))
        .collect::<Vec<_>>();
      (Just(inputs), Just(outputs), Just(fee), Just(runestone), witnesses)
    })
    .prop_map(|(inputs, outputs, fee, runestone, witnesses)| TxSpec {
      inputs,
      outputs,
      fee,
      witnesses,
      runestone,
    })
    .boxed()
}

pub fn coinbase_spec(p: &Profile) -> BoxedStrategy<CoinbaseSpec> {
  (
    proptest::collection::vec(out_spec(p), 0..4),
    prop_oneof![
      5 => Just(ClaimSpec::Full),
      2 => (1u32..1_000_000).prop_map(ClaimSpec::Under),
      2 => (1u64..10_000).prop_map(ClaimSpec::UnderSats),
      1 => Just(ClaimSpec::Zero),
    ],
    optw(p.p_dup_coinbase, any::<u16>()),
    optw(p.p_coinbase_runestone, runestone_spec(p)),
  )
    .prop_map(|(outputs, claim, duplicate_of_earlier, runestone)| CoinbaseSpec {
      outputs,
      claim,
      duplicate_of_earlier,
      runestone,
    })
    .boxed()
}

pub fn block_spec(p: &Profile) -> BoxedStrategy<BlockSpec> {
  (
    coinbase_spec(p),
    proptest::collection::vec(tx_spec(p), p.txs.clone()),
  )
    .prop_map(|(coinbase, txs)| BlockSpec { coinbase, txs })
    .boxed()
}

pub fn chain_spec(p: &Profile) -> BoxedStrategy<ChainSpec> {
  (
    proptest::sample::select(p.prefix.clone()),
    proptest::collection::vec(block_spec(p), p.blocks.clone()),
  )
    .prop_map(|(prefix, blocks)| ChainSpec { prefix, blocks })
    .boxed()
}
