//! The engine shared by every property: seeded proptest runners on worker
//! threads, shrinking, replay files, known findings, evidence.

use {
  proptest::{
    strategy::{BoxedStrategy, Strategy, ValueTree},
    test_runner::{Config, RngAlgorithm, RngSeed, TestCaseError, TestError, TestRng, TestRunner},
  },
  serde::{Serialize, de::DeserializeOwned},
  serde_json::{Value, json},
  std::{
    collections::{BTreeMap, HashSet},
    fmt::Debug,
    fs,
    panic::{self, AssertUnwindSafe},
    path::{Path, PathBuf},
    sync::{
      Arc, Mutex,
      atomic::{AtomicBool, AtomicU64, Ordering},
    },
    thread,
    time::{Duration, Instant},
  },
};

pub const VERIF_DIR: &str = "/verif";

#[derive(Copy, Clone, Debug, PartialEq, Eq)]
pub enum Tier {
  Quick,
  Thorough,
}

impl Tier {
  pub fn name(self) -> &'static str {
    match self {
      Tier::Quick => "quick",
      Tier::Thorough => "thorough",
    }
  }

  /// `q` in the quick tier, `t` in the thorough tier.
  pub fn pick<T>(self, q: T, t: T) -> T {
    match self {
      Tier::Quick => q,
      Tier::Thorough => t,
    }
  }
}

#[derive(Clone, Debug)]
pub struct Args {
  pub id: String,
  pub tier: Tier,
  pub seed: u64,
  pub replay: Option<PathBuf>,
  pub workers: usize,
  /// multiplies every case count (testing the machinery itself)
  pub scale: f64,
}

/// A failed check. `sig` is a stable signature of the failure class: it is
/// what a line in known-findings.txt is matched against.
#[derive(Clone, Debug)]
pub struct Fail {
  pub sig: String,
  pub msg: String,
}

impl Fail {
  pub fn new(sig: impl Into<String>, msg: impl Into<String>) -> Self {
    Self {
      sig: sig.into(),
      msg: msg.into(),
    }
  }
}

#[macro_export]
macro_rules! fail {
  ($sig:expr, $($arg:tt)*) => {
    return Err($crate::runner::Fail::new($sig, format!($($arg)*)))
  };
}

#[macro_export]
macro_rules! ensure_prop {
  ($cond:expr, $sig:expr, $($arg:tt)*) => {
    if !($cond) {
      return Err($crate::runner::Fail::new($sig, format!($($arg)*)));
    }
  };
}

pub type CheckResult = Result<(), Fail>;

// ---------------------------------------------------------------- panics

#[derive(Clone, Debug)]
pub struct PanicRecord {
  pub thread: String,
  pub message: String,
  pub location: String,
}

thread_local! {
  static LAST_PANIC: std::cell::RefCell<Option<PanicRecord>> = const { std::cell::RefCell::new(None) };
  static IS_WORKER: std::cell::Cell<bool> = const { std::cell::Cell::new(false) };
}

static BACKGROUND_PANICS: Mutex<Vec<PanicRecord>> = Mutex::new(Vec::new());
static LAST_WORKER_PANIC: Mutex<Option<PanicRecord>> = Mutex::new(None);
static BACKGROUND_PANIC_COUNT: AtomicU64 = AtomicU64::new(0);

pub fn install_panic_hook() {
  panic::set_hook(Box::new(|info| {
    let message = if let Some(s) = info.payload().downcast_ref::<&str>() {
      (*s).to_string()
    } else if let Some(s) = info.payload().downcast_ref::<String>() {
      s.clone()
    } else {
      "<non-string panic payload>".to_string()
    };
    let location = info
      .location()
      .map(|l| format!("{}:{}", l.file(), l.line()))
      .unwrap_or_else(|| "<unknown>".into());
    // a panic raised inside std or a dependency is attributed to the
    // innermost ord / harness frame on the stack
    let mut location = location;
    if !(location.starts_with("/repo/") || location.starts_with("src/")) {
      let backtrace = std::backtrace::Backtrace::force_capture().to_string();
      for line in backtrace.lines() {
        let Some(at) = line.trim().strip_prefix("at ") else {
          continue;
        };
        // strip ":line:col" -> keep ":line"
        let at = at.rsplit_once(':').map(|x| x.0).unwrap_or(at);
        if at.starts_with("/repo/crates/mockcore") || at.starts_with("./src/") || at.starts_with("/verif/") {
          break;
        }
        if at.starts_with("/repo/src") || at.starts_with("/repo/crates/ordinals") {
          location = format!("{at} (via {location})");
          break;
        }
      }
    }
    let record = PanicRecord {
      thread: thread::current().name().unwrap_or("<unnamed>").to_string(),
      message,
      location,
    };
    if IS_WORKER.with(|w| w.get()) {
      *LAST_WORKER_PANIC.lock().unwrap() = Some(record.clone());
      LAST_PANIC.with(|p| *p.borrow_mut() = Some(record));
    } else {
      if std::env::var_os("VERIF_VERBOSE").is_some() {
        eprintln!("background panic: {record:?}");
      }
      BACKGROUND_PANICS.lock().unwrap().push(record);
      BACKGROUND_PANIC_COUNT.fetch_add(1, Ordering::SeqCst);
    }
  }));
}

pub fn mark_worker_thread() {
  IS_WORKER.with(|w| w.set(true));
}

pub fn background_panic_count() -> u64 {
  BACKGROUND_PANIC_COUNT.load(Ordering::SeqCst)
}

pub fn background_panics() -> Vec<PanicRecord> {
  BACKGROUND_PANICS.lock().unwrap().clone()
}

/// Runs `f`, turning a panic on this thread into `Err(record)`.
pub fn catch<T>(f: impl FnOnce() -> T) -> Result<T, PanicRecord> {
  LAST_PANIC.with(|p| *p.borrow_mut() = None);
  match panic::catch_unwind(AssertUnwindSafe(f)) {
    Ok(value) => Ok(value),
    Err(_) => Err(LAST_PANIC.with(|p| p.borrow_mut().take()).unwrap_or(PanicRecord {
      thread: String::new(),
      message: "<panic not recorded>".into(),
      location: "<unknown>".into(),
    })),
  }
}

/// Where a panic happened, reduced to something stable across line edits:
/// the file path relative to the repository.
pub fn panic_site(record: &PanicRecord) -> String {
  let location = record.location.split(" (via ").next().unwrap_or("");
  let file = location.rsplit_once(':').map(|x| x.0).unwrap_or("");
  file
    .trim_start_matches("/repo/")
    .trim_start_matches("/verif/harness/")
    .to_string()
}

pub fn panic_is_ord(record: &PanicRecord) -> bool {
  let l = &record.location;
  (l.starts_with("/repo/src") || l.starts_with("/repo/crates/ordinals"))
    && !l.starts_with("/repo/crates/mockcore")
}

// ---------------------------------------------------------- known findings

#[derive(Clone, Debug, Default)]
pub struct KnownFindings {
  /// (property, signature, description)
  pub known: Vec<(String, String, String)>,
}

impl KnownFindings {
  pub fn load() -> Self {
    let mut known = Vec::new();
    if let Ok(text) = fs::read_to_string(Path::new(VERIF_DIR).join("known-findings.txt")) {
      for line in text.lines() {
        let line = line.trim();
        let Some(rest) = line.strip_prefix("known:") else {
          continue;
        };
        let rest = rest.trim();
        let mut property = None;
        let mut sig = None;
        let mut words = rest.splitn(3, ' ');
        for _ in 0..2 {
          if let Some(word) = words.next() {
            if let Some(p) = word.strip_prefix("property=") {
              property = Some(p.to_string());
            } else if let Some(s) = word.strip_prefix("sig=") {
              sig = Some(s.to_string());
            }
          }
        }
        let description = words.next().unwrap_or("").to_string();
        if let (Some(property), Some(sig)) = (property, sig) {
          known.push((property, sig, description));
        }
      }
    }
    Self { known }
  }

  pub fn lookup(&self, property: &str, sig: &str) -> Option<&str> {
    self
      .known
      .iter()
      .find(|(p, s, _)| p == property && s == sig)
      .map(|(_, _, d)| d.as_str())
  }
}

// ------------------------------------------------------------------ stats

#[derive(Default)]
pub struct Stats {
  pub evaluations: AtomicU64,
  pub nontrivial: Mutex<HashSet<u64>>,
  pub labels: Mutex<BTreeMap<String, u64>>,
  pub samples: Mutex<Vec<Value>>,
  pub excluded_known: Mutex<BTreeMap<String, u64>>,
  pub extra: Mutex<BTreeMap<String, Value>>,
}

/// Handed to every check invocation. While a failure is being shrunk or
/// replayed `counting` is false and nothing is recorded.
pub struct Cx<'a> {
  pub stats: &'a Stats,
  pub counting: bool,
  pub known: &'a KnownFindings,
  pub property: &'a str,
  pub tier: Tier,
  /// in replay mode known findings are not excluded
  pub strict: bool,
}

impl Cx<'_> {
  pub fn label(&self, name: &str) {
    if self.counting {
      *self
        .stats
        .labels
        .lock()
        .unwrap()
        .entry(name.to_string())
        .or_default() += 1;
    }
  }

  pub fn label_n(&self, name: &str, n: u64) {
    if self.counting && n > 0 {
      *self
        .stats
        .labels
        .lock()
        .unwrap()
        .entry(name.to_string())
        .or_default() += n;
    }
  }

  pub fn nontrivial(&self, fingerprint: u64) {
    if self.counting {
      self.stats.nontrivial.lock().unwrap().insert(fingerprint);
    }
  }

  pub fn sample(&self, limit: usize, f: impl FnOnce() -> Value) {
    if self.counting {
      let mut samples = self.stats.samples.lock().unwrap();
      if samples.len() < limit {
        samples.push(f());
      }
    }
  }

  pub fn add_extra(&self, key: &str, n: u64) {
    if self.counting {
      let mut extra = self.stats.extra.lock().unwrap();
      let entry = extra.entry(key.to_string()).or_insert(json!(0));
      *entry = json!(entry.as_u64().unwrap_or(0) + n);
    }
  }

  /// A failure whose signature is listed in known-findings.txt is counted
  /// and excluded (returns Ok) so that the search continues behind it.
  pub fn fail(&self, fail: Fail) -> CheckResult {
    if !self.strict && self.known.lookup(self.property, &fail.sig).is_some() {
      if self.counting {
        *self
          .stats
          .excluded_known
          .lock()
          .unwrap()
          .entry(fail.sig)
          .or_default() += 1;
      } else {
        // during shrinking: a known finding is not what we are minimising
      }
      Ok(())
    } else {
      Err(fail)
    }
  }
}

pub fn fingerprint<T: std::hash::Hash>(value: &T) -> u64 {
  use std::hash::Hasher;
  let mut hasher = std::collections::hash_map::DefaultHasher::new();
  value.hash(&mut hasher);
  hasher.finish()
}

pub fn fingerprint_str(s: &str) -> u64 {
  fingerprint(&s)
}

pub fn mix_seed(seed: u64, id: &str, part: &str, worker: u64) -> [u8; 32] {
  // splitmix over a simple FNV of the strings; deterministic across runs
  let mut h: u64 = 0xcbf29ce484222325;
  for b in id.bytes().chain([0u8]).chain(part.bytes()) {
    h ^= u64::from(b);
    h = h.wrapping_mul(0x100000001b3);
  }
  let mut state = seed ^ h.rotate_left(17) ^ worker.wrapping_mul(0x9E3779B97F4A7C15);
  let mut out = [0u8; 32];
  for chunk in out.chunks_mut(8) {
    state = state.wrapping_add(0x9E3779B97F4A7C15);
    let mut z = state;
    z = (z ^ (z >> 30)).wrapping_mul(0xBF58476D1CE4E5B9);
    z = (z ^ (z >> 27)).wrapping_mul(0x94D049BB133111EB);
    z ^= z >> 31;
    chunk.copy_from_slice(&z.to_le_bytes());
  }
  out
}

// ------------------------------------------------------------- the parts

/// One generated check. A property is decided by one or more parts.
pub struct Part<C> {
  pub name: &'static str,
  pub cases: u64,
  pub max_shrink_iters: u32,
  pub strategy: Arc<dyn Fn() -> BoxedStrategy<C> + Send + Sync>,
  pub check: Arc<dyn Fn(&C, &Cx) -> CheckResult + Send + Sync>,
  /// maximum number of worker threads that make sense for this part
  pub max_workers: usize,
  /// per-case watchdog
  pub case_timeout: Duration,
}

impl<C> Part<C> {
  pub fn new(
    name: &'static str,
    cases: u64,
    strategy: impl Fn() -> BoxedStrategy<C> + Send + Sync + 'static,
    check: impl Fn(&C, &Cx) -> CheckResult + Send + Sync + 'static,
  ) -> Self {
    Self {
      name,
      cases,
      max_shrink_iters: 2000,
      strategy: Arc::new(strategy),
      check: Arc::new(check),
      max_workers: 16,
      case_timeout: Duration::from_secs(180),
    }
  }

  pub fn shrink_iters(mut self, n: u32) -> Self {
    self.max_shrink_iters = n;
    self
  }

  pub fn workers(mut self, n: usize) -> Self {
    self.max_workers = n;
    self
  }

  pub fn timeout(mut self, secs: u64) -> Self {
    self.case_timeout = Duration::from_secs(secs);
    self
  }
}

#[derive(Serialize, serde::Deserialize)]
pub struct ReplayFile {
  pub property: String,
  pub part: String,
  pub seed: u64,
  pub sig: String,
  pub message: String,
  pub case: Value,
}

pub struct Violation {
  pub part: String,
  pub sig: String,
  pub msg: String,
  pub replay: PathBuf,
}

pub struct Session {
  pub args: Args,
  pub known: KnownFindings,
  pub stats: Arc<Stats>,
  pub started: Instant,
  pub violations: Vec<Violation>,
  pub inconclusive: Vec<String>,
  pub part_evaluations: BTreeMap<String, u64>,
  pub exhaustive: bool,
  pub traces_validated: Option<u64>,
}

fn run_check<C>(
  check: &(dyn Fn(&C, &Cx) -> CheckResult + Send + Sync),
  case: &C,
  cx: &Cx,
) -> CheckResult {
  match catch(|| check(case, cx)) {
    Ok(result) => result,
    Err(record) => {
      if panic_is_ord(&record) {
        cx.fail(Fail::new(
          format!("panic|{}", panic_site(&record)),
          format!("panic at {}: {}", record.location, record.message),
        ))
      } else {
        // a harness or mock-node fault: never a violation
        Err(Fail::new(
          "HARNESS-FAULT",
          format!(
            "harness fault: panic at {}: {}",
            record.location, record.message
          ),
        ))
      }
    }
  }
}

impl Session {
  pub fn new(args: Args) -> Self {
    install_panic_hook();
    mark_worker_thread();
    Self {
      args,
      known: KnownFindings::load(),
      stats: Arc::new(Stats::default()),
      started: Instant::now(),
      violations: Vec::new(),
      inconclusive: Vec::new(),
      part_evaluations: BTreeMap::new(),
      exhaustive: false,
      traces_validated: None,
    }
  }

  pub fn tier(&self) -> Tier {
    self.args.tier
  }

  pub fn scaled(&self, n: u64) -> u64 {
    ((n as f64 * self.args.scale).ceil() as u64).max(1)
  }

  fn replay_dir(&self) -> PathBuf {
    Path::new(VERIF_DIR).join("replays").join(&self.args.id)
  }

  /// Runs one part: generated cases on worker threads, or the replay file
  /// when one was given for this part.
  pub fn run_part<C>(&mut self, part: Part<C>)
  where
    C: Clone + Debug + Serialize + DeserializeOwned + Send + 'static,
  {
    if let Some(path) = self.args.replay.clone() {
      self.replay_part(&part, &path);
      return;
    }

    if !self.violations.is_empty() {
      return;
    }

    let workers = self.args.workers.min(part.max_workers).max(1);
    let total = self.scaled(part.cases);
    let workers = workers.min(usize::try_from(total).unwrap_or(usize::MAX)).max(1);
    let per_worker = total.div_ceil(workers as u64);
    let stop = Arc::new(AtomicBool::new(false));
    let done = Arc::new(AtomicBool::new(false));
    let stamps: Arc<Vec<Mutex<Option<Instant>>>> =
      Arc::new((0..workers).map(|_| Mutex::new(None)).collect());
    let part_evals = Arc::new(AtomicU64::new(0));

    // watchdog: a case that exceeds its budget makes the run inconclusive
    let watchdog = {
      let stamps = stamps.clone();
      let done = done.clone();
      let timeout = part.case_timeout;
      let id = self.args.id.clone();
      let name = part.name;
      thread::spawn(move || {
        while !done.load(Ordering::SeqCst) {
          thread::sleep(Duration::from_millis(25));
          for (w, stamp) in stamps.iter().enumerate() {
            if let Some(start) = *stamp.lock().unwrap()
              && start.elapsed() > timeout
            {
              println!(
                "INCONCLUSIVE property={id} part={name}: worker {w} case exceeded {}s (watchdog)",
                timeout.as_secs()
              );
              std::process::exit(2);
            }
          }
        }
      })
    };

    let mut handles = Vec::new();
    for w in 0..workers {
      let strategy = part.strategy.clone();
      let check = part.check.clone();
      let stats = self.stats.clone();
      let known = self.known.clone();
      let stop = stop.clone();
      let stamps = stamps.clone();
      let part_evals = part_evals.clone();
      let id = self.args.id.clone();
      let tier = self.args.tier;
      let seed = mix_seed(self.args.seed, &self.args.id, part.name, w as u64);
      let max_shrink_iters = part.max_shrink_iters;
      let handle = thread::Builder::new()
        .name(format!("worker-{w}"))
        .stack_size(64 << 20)
        .spawn(move || {
          mark_worker_thread();
          let config = Config {
            cases: u32::try_from(per_worker).unwrap_or(u32::MAX),
            failure_persistence: None,
            max_shrink_iters,
            max_global_rejects: 1 << 20,
            max_local_rejects: 1 << 20,
            rng_algorithm: RngAlgorithm::ChaCha,
            rng_seed: RngSeed::Fixed(0),
            ..Config::default()
          };
          let rng = TestRng::from_seed(RngAlgorithm::ChaCha, &seed);
          let mut runner = TestRunner::new_with_rng(config, rng);
          let failed = AtomicBool::new(false);
          let last_fail: Mutex<Option<Fail>> = Mutex::new(None);
          let strategy = strategy();
          let result = runner.run(&strategy, |case| {
            let counting = !failed.load(Ordering::SeqCst);
            if counting && stop.load(Ordering::SeqCst) {
              return Ok(());
            }
            *stamps[w].lock().unwrap() = Some(Instant::now());
            let cx = Cx {
              stats: &stats,
              counting,
              known: &known,
              property: &id,
              tier,
              strict: false,
            };
            if counting {
              stats.evaluations.fetch_add(1, Ordering::Relaxed);
              part_evals.fetch_add(1, Ordering::Relaxed);
            }
            let outcome = run_check(&*check, &case, &cx);
            *stamps[w].lock().unwrap() = None;
            match outcome {
              Ok(()) => Ok(()),
              Err(fail) => {
                if fail.sig == "HARNESS-FAULT" {
                  if counting {
                    println!("INCONCLUSIVE property={id}: {}", fail.msg);
                    for record in background_panics().iter().rev().take(4) {
                      println!("background panic [{}] at {}: {}", record.thread, record.location, record.message);
                    }
                    println!("case: {case:?}");
                    std::process::exit(2);
                  }
                  // while shrinking, a harness fault is "not the failure"
                  return Ok(());
                }
                failed.store(true, Ordering::SeqCst);
                stop.store(true, Ordering::SeqCst);
                let msg = fail.msg.clone();
                *last_fail.lock().unwrap() = Some(fail);
                Err(TestCaseError::fail(msg))
              }
            }
          });
          match result {
            Ok(()) => None,
            Err(TestError::Fail(_, case)) => {
              let fail = last_fail.lock().unwrap().clone();
              Some((case, fail))
            }
            Err(TestError::Abort(reason)) => {
              println!("INCONCLUSIVE property={id}: proptest aborted: {reason}");
              std::process::exit(2);
            }
          }
        })
        .unwrap();
      handles.push(handle);
    }

    let mut failures = Vec::new();
    for handle in handles {
      match handle.join() {
        Ok(Some(failure)) => failures.push(failure),
        Ok(None) => {}
        Err(_) => {
          println!(
            "INCONCLUSIVE property={}: worker thread panicked outside a case: {:?}",
            self.args.id,
            LAST_WORKER_PANIC.lock().unwrap()
          );
          std::process::exit(2);
        }
      }
    }
    done.store(true, Ordering::SeqCst);
    let _ = watchdog.join();

    *self
      .part_evaluations
      .entry(part.name.to_string())
      .or_default() += part_evals.load(Ordering::Relaxed);

    // every shrunk failure is re-executed from its serialised form before
    // it is reported
    for (i, (case, original)) in failures.into_iter().enumerate() {
      let value = serde_json::to_value(&case).expect("case serialises");
      let case2: C = serde_json::from_value(value.clone()).expect("case deserialises");
      let cx = Cx {
        stats: &self.stats,
        counting: false,
        known: &self.known,
        property: &self.args.id,
        tier: self.args.tier,
        strict: false,
      };
      let mut confirmed = None;
      for _ in 0..3 {
        if let Err(fail) = run_check(&*part.check, &case2, &cx) {
          confirmed = Some(fail);
          break;
        }
      }
      match confirmed {
        Some(fail) if fail.sig != "HARNESS-FAULT" => {
          let dir = self.replay_dir();
          fs::create_dir_all(&dir).unwrap();
          let path = dir.join(format!(
            "{}-{}-seed{}-{}.json",
            self.args.id, part.name, self.args.seed, i
          ));
          let file = ReplayFile {
            property: self.args.id.clone(),
            part: part.name.to_string(),
            seed: self.args.seed,
            sig: fail.sig.clone(),
            message: fail.msg.clone(),
            case: value,
          };
          fs::write(&path, serde_json::to_string_pretty(&file).unwrap()).unwrap();
          self.violations.push(Violation {
            part: part.name.to_string(),
            sig: fail.sig,
            msg: fail.msg,
            replay: path,
          });
        }
        _ => {
          self.inconclusive.push(format!(
            "part {}: a failure found during the search ({}) did not reproduce from its serialised case: {case:?}",
            part.name,
            original
              .as_ref()
              .map(|f| format!("[{}] {}", f.sig, f.msg))
              .unwrap_or_else(|| "unrecorded".into())
          ));
        }
      }
    }
  }

  fn replay_part<C>(&mut self, part: &Part<C>, path: &Path)
  where
    C: Clone + Debug + Serialize + DeserializeOwned + Send + 'static,
  {
    let text = match fs::read_to_string(path) {
      Ok(text) => text,
      Err(err) => {
        self
          .inconclusive
          .push(format!("cannot read replay file {}: {err}", path.display()));
        return;
      }
    };
    let file: ReplayFile = match serde_json::from_str(&text) {
      Ok(file) => file,
      Err(err) => {
        self
          .inconclusive
          .push(format!("cannot parse replay file {}: {err}", path.display()));
        return;
      }
    };
    if file.part != part.name {
      return;
    }
    let case: C = match serde_json::from_value(file.case.clone()) {
      Ok(case) => case,
      Err(err) => {
        self
          .inconclusive
          .push(format!("replay case does not deserialise: {err}"));
        return;
      }
    };
    mark_worker_thread();
    let cx = Cx {
      stats: &self.stats,
      counting: true,
      known: &self.known,
      property: &self.args.id,
      tier: self.args.tier,
      strict: true,
    };
    self.stats.evaluations.fetch_add(1, Ordering::Relaxed);
    *self
      .part_evaluations
      .entry(part.name.to_string())
      .or_default() += 1;
    println!("replaying {} part {}", path.display(), part.name);
    if let Err(fail) = run_check(&*part.check, &case, &cx) {
      println!("replay failed: [{}] {}", fail.sig, fail.msg);
      self.violations.push(Violation {
        part: part.name.to_string(),
        sig: fail.sig,
        msg: fail.msg,
        replay: path.to_path_buf(),
      });
    } else {
      println!("replay passed");
    }
  }

  /// Runs a deterministic enumeration (no generator): `f` is called once on
  /// the main thread and reports through the `Cx`.
  pub fn run_enumeration(
    &mut self,
    name: &'static str,
    f: impl FnOnce(&Cx) -> CheckResult,
  ) {
    if self.args.replay.is_some() || !self.violations.is_empty() {
      return;
    }
    mark_worker_thread();
    let cx = Cx {
      stats: &self.stats,
      counting: true,
      known: &self.known,
      property: &self.args.id,
      tier: self.args.tier,
      strict: false,
    };
    let before = self.stats.evaluations.load(Ordering::Relaxed);
    let outcome = match catch(|| f(&cx)) {
      Ok(r) => r,
      Err(record) => Err(Fail::new(
        format!("panic|{}", panic_site(&record)),
        format!("panic at {}: {}", record.location, record.message),
      )),
    };
    let after = self.stats.evaluations.load(Ordering::Relaxed);
    *self.part_evaluations.entry(name.to_string()).or_default() += after - before;
    if let Err(fail) = outcome {
      let dir = self.replay_dir();
      fs::create_dir_all(&dir).unwrap();
      let path = dir.join(format!("{}-{}-enum.json", self.args.id, name));
      let file = ReplayFile {
        property: self.args.id.clone(),
        part: name.to_string(),
        seed: self.args.seed,
        sig: fail.sig.clone(),
        message: fail.msg.clone(),
        case: json!({"enumeration": name, "message": fail.msg}),
      };
      fs::write(&path, serde_json::to_string_pretty(&file).unwrap()).unwrap();
      self.violations.push(Violation {
        part: name.to_string(),
        sig: fail.sig,
        msg: fail.msg,
        replay: path,
      });
    }
  }

  /// Writes the evidence file and returns the process exit code.
  pub fn finish(self, meta: &Meta) -> i32 {
    if std::env::var_os("ORDVERIF_DEBUG").is_some() {
      if let Ok(stat) = std::fs::read_to_string("/proc/self/stat") {
        let fields: Vec<&str> = stat.rsplit(')').next().unwrap_or("").split_whitespace().collect();
        // after the command name: state is field 0; utime 11, stime 12, cutime 13, cstime 14
        if fields.len() > 14 {
          eprintln!(
            "[debug] cpu ticks: self user {} sys {}; children user {} sys {}",
            fields[11], fields[12], fields[13], fields[14]
          );
        }
      }
    }
    let stats = &self.stats;
    let labels = stats.labels.lock().unwrap().clone();
    let excluded = stats.excluded_known.lock().unwrap().clone();
    let nontrivial = stats.nontrivial.lock().unwrap().len() as u64;
    let evaluations = stats.evaluations.load(Ordering::Relaxed);
    let samples = stats.samples.lock().unwrap().clone();
    let extra = stats.extra.lock().unwrap().clone();

    let mut inconclusive = self.inconclusive.clone();

    // a generator that never produced a required class fails closed
    if self.args.replay.is_none() && self.violations.is_empty() {
      for label in meta.required_labels {
        if labels.get(*label).copied().unwrap_or(0) == 0 {
          inconclusive.push(format!("generator starved: label `{label}` never produced"));
        }
      }
    }

    // every listed finding of this property is announced, with how often
    // this run met (and excluded) it
    if self.args.replay.is_none() {
      for (property, sig, description) in &self.known.known {
        if property != &self.args.id {
          continue;
        }
        match excluded.get(sig) {
          Some(count) => println!(
            "KNOWN-FINDING: property={property} sig={sig} {description} (excluded {count} generated cases)"
          ),
          None => println!(
            "KNOWN-FINDING: property={property} sig={sig} {description} (not met by this run's cases)"
          ),
        }
      }
    }

    let mut coverage = serde_json::Map::new();
    coverage.insert("evaluations".into(), json!(evaluations));
    coverage.insert("distinct_nontrivial".into(), json!(nontrivial));
    coverage.insert("rule".into(), json!(meta.rule));
    coverage.insert(
      "samples".into(),
      if samples.is_empty() {
        json!([])
      } else {
        Value::Array(samples)
      },
    );
    coverage.insert("labels".into(), json!(labels));
    coverage.insert("parts".into(), json!(self.part_evaluations));
    coverage.insert("excluded_known".into(), json!(excluded));
    coverage.insert("workers".into(), json!(self.args.workers));
    if self.exhaustive {
      coverage.insert("exhaustive".into(), json!(true));
    }
    if let Some(n) = self.traces_validated {
      coverage.insert("traces_validated_against_impl".into(), json!(n));
    }
    for (k, v) in extra {
      coverage.insert(k, v);
    }
    // the coverage-guided stage (run by ./check before this process) reports
    // through the environment
    if let Ok(text) = std::env::var("ORDVERIF_FUZZ_STATS") {
      if let Ok(value) = serde_json::from_str::<Value>(&text) {
        coverage.insert("coverage_guided_stage".into(), value);
      }
    }
    if !inconclusive.is_empty() {
      coverage.insert("inconclusive".into(), json!(inconclusive));
    }

    let evidence = json!({
      "property_id": self.args.id,
      "tier": self.args.tier.name(),
      "seed": self.args.seed,
      "level": meta.level,
      "coverage": Value::Object(coverage),
      "assumptions": meta.assumptions,
      "wall_s": self.started.elapsed().as_secs_f64(),
      "violations": self.violations.len(),
    });

    if self.args.replay.is_none() {
      let dir = Path::new(VERIF_DIR).join("evidence");
      fs::create_dir_all(&dir).unwrap();
      fs::write(
        dir.join(format!("{}.json", self.args.id)),
        serde_json::to_string_pretty(&evidence).unwrap() + "\n",
      )
      .unwrap();
    }

    println!(
      "property={} tier={} seed={} evaluations={} distinct_nontrivial={} wall_s={:.1}",
      self.args.id,
      self.args.tier.name(),
      self.args.seed,
      evaluations,
      nontrivial,
      self.started.elapsed().as_secs_f64()
    );
    if std::env::var_os("VERIF_VERBOSE").is_some() {
      println!("labels: {}", serde_json::to_string(&labels).unwrap());
    }

    if !self.violations.is_empty() {
      for violation in &self.violations {
        println!(
          "violation in part {}: [{}] {}",
          violation.part, violation.sig, violation.msg
        );
        println!(
          "VIOLATION property={} replay={}",
          self.args.id,
          violation.replay.display()
        );
      }
      return 1;
    }

    if !inconclusive.is_empty() {
      for line in &inconclusive {
        println!("INCONCLUSIVE property={}: {line}", self.args.id);
      }
      return 2;
    }

    0
  }
}

pub struct Meta {
  pub level: &'static str,
  pub rule: &'static str,
  pub assumptions: &'static [&'static str],
  pub required_labels: &'static [&'static str],
}

/// Deterministic value stream for enumerations that want "random" samples
/// without a proptest strategy: a TestRng seeded from the session seed.
pub fn seeded_rng(seed: u64, id: &str, part: &str) -> TestRng {
  TestRng::from_seed(RngAlgorithm::ChaCha, &mix_seed(seed, id, part, 0))
}

/// Generates one value from a strategy with the given rng (used by
/// enumerations and by samples).
pub fn generate<S: Strategy>(strategy: &S, runner: &mut TestRunner) -> S::Value {
  strategy
    .new_tree(runner)
    .expect("strategy generates")
    .current()
}
