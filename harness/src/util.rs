//! Small helpers shared by generators.

use proptest::prelude::*;

/// Maps a 16-bit choice monotonically onto `0..len` (so that shrinking the
/// choice shrinks the index).
pub fn pick_index(choice: u16, len: usize) -> usize {
  if len == 0 {
    0
  } else {
    (usize::from(choice) * len) >> 16
  }
}

/// u128 values concentrated on boundaries: 0, 2^(7k)±1, 2^(8k)±1, 10^k±1,
/// MAX, plus uniform values of every bit length.
pub fn boundary_u128() -> BoxedStrategy<u128> {
  prop_oneof![
    2 => (0u32..=128, -2i32..=2).prop_map(|(bits, d)| {
      let base = if bits == 128 { u128::MAX } else { 1u128 << bits };
      if d >= 0 { base.saturating_add(d as u128) } else { base.saturating_sub((-d) as u128) }
    }),
    1 => (0u32..=38, -2i32..=2).prop_map(|(e, d)| {
      let base = 10u128.pow(e);
      if d >= 0 { base.saturating_add(d as u128) } else { base.saturating_sub((-d) as u128) }
    }),
    2 => (any::<u128>(), 0u32..=127).prop_map(|(n, shift)| n >> shift),
    1 => any::<u128>(),
    1 => (0u128..1000),
  ]
  .boxed()
}

pub fn boundary_u64() -> BoxedStrategy<u64> {
  prop_oneof![
    2 => (0u32..=64, -2i32..=2).prop_map(|(bits, d)| {
      let base = if bits == 64 { u64::MAX } else { 1u64 << bits };
      if d >= 0 { base.saturating_add(d as u64) } else { base.saturating_sub((-d) as u64) }
    }),
    2 => (any::<u64>(), 0u32..=63).prop_map(|(n, shift)| n >> shift),
    1 => any::<u64>(),
    1 => (0u64..1000),
  ]
  .boxed()
}

pub fn hex(bytes: &[u8]) -> String {
  hex::encode(bytes)
}

/// A u128 that serialises as a decimal string (JSON numbers stop at u64).
#[derive(Clone, Copy, PartialEq, Eq, Hash, PartialOrd, Ord, Default)]
pub struct U128(pub u128);

impl std::fmt::Debug for U128 {
  fn fmt(&self, f: &mut std::fmt::Formatter) -> std::fmt::Result {
    write!(f, "{}", self.0)
  }
}

impl serde::Serialize for U128 {
  fn serialize<S: serde::Serializer>(&self, serializer: S) -> Result<S::Ok, S::Error> {
    serializer.serialize_str(&self.0.to_string())
  }
}

impl<'de> serde::Deserialize<'de> for U128 {
  fn deserialize<D: serde::Deserializer<'de>>(deserializer: D) -> Result<Self, D::Error> {
    let s = String::deserialize(deserializer)?;
    s.parse::<u128>().map(U128).map_err(serde::de::Error::custom)
  }
}
