//! One function per property: runs its parts on the session and returns
//! the evidence metadata.

use crate::runner::{Meta, Session};

pub mod builder;
pub mod chainmisc;
pub mod content;
pub mod crash;
pub mod envelope;
pub mod explorer;
pub mod inscriptions;
pub mod pure_ordinals;
pub mod reorg;
pub mod runes;
pub mod runestone;
pub mod sats;
pub mod settings;
pub mod storage;
pub mod text;
pub mod wallet;

pub fn dispatch(id: &str) -> Option<fn(&mut Session) -> Meta> {
  Some(match id {
    "C01" => sats::c01,
    "C02" => sats::c02,
    "C03" => inscriptions::c03,
    "C04" => inscriptions::c04,
    "C05" => inscriptions::c05,
    "C06" => inscriptions::c06,
    "C07" => inscriptions::c07,
    "C08" => runes::c08,
    "C09" => runes::c09,
    "C10" => runes::c10,
    "C11" => runes::c11,
    "C12" => sats::c12,
    "C13" => crash::c13,
    "C14" => reorg::c14,
    "C15" => chainmisc::c15,
    "C16" => chainmisc::c16,
    "C17" => sats::c17,
    "C18" => explorer::c18,
    "C19" => content::c19,
    "C20" => builder::c20,
    "C21" => wallet::c21,
    "C22" => wallet::c22,
    "C23" => wallet::c23,
    "C24" => wallet::c24,
    "C25" => runestone::c25,
    "C26" => pure_ordinals::c26,
    "C27" => envelope::c27,
    "C28" => envelope::c28,
    "C29" => pure_ordinals::c29,
    "C30" => pure_ordinals::c30,
    "C32" => pure_ordinals::c32,
    "C31" => text::c31,
    "C33" => pure_ordinals::c33,
    "C34" => text::c34,
    "C35" => storage::c35,
    "C36" => settings::c36,
    "C37" => chainmisc::c37,
    _ => return None,
  })
}

/// Worker sub-commands (`ordverif --internal-... args`).
pub fn internal(command: &str, args: &[String]) -> i32 {
  match command {
    "--internal-c13-worker" => crash::worker(args),
    // --internal-import-crash <target> <crash file>: prints "<ID> <replay file>"
    "--internal-import-crash" => match (args.first(), args.get(1)) {
      (Some(target), Some(path)) => match crate::fuzz::import(target, std::path::Path::new(path)) {
        Ok((property, replay)) => {
          println!("{property} {}", replay.display());
          0
        }
        Err(message) => {
          eprintln!("{message}");
          2
        }
      },
      _ => 2,
    },
    // --internal-fuzz-seeds <target> <dir>: writes the seed corpus
    "--internal-fuzz-seeds" => match (args.first(), args.get(1)) {
      (Some(target), Some(dir)) => {
        let _ = std::fs::create_dir_all(dir);
        for (i, seed) in crate::fuzz::seeds(target).iter().enumerate() {
          let _ = std::fs::write(std::path::Path::new(dir).join(format!("seed-{i:02}")), seed);
        }
        0
      }
      _ => 2,
    },
    _ => 2,
  }
}
