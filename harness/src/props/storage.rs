//! C35: index storage encodings read back what was written.

use {
  crate::{
    node::{IndexConfig, Node, open_index, scratch_dir},
    runner::{CheckResult, Cx, Fail, Meta, Part, Session, fingerprint},
    util::{boundary_u64, boundary_u128},
  },
  bitcoin::{
    BlockHash, CompactTarget, Network, OutPoint, TxMerkleNode, Txid, block::Header, hashes::Hash,
  },
  ord::{
    Index, InscriptionId, RuneEntry,
    verif::{self, InscriptionEntry, UtxoParts},
  },
  ordinals::{Rune, RuneId, Sat, SatPoint, SpacedRune, Terms},
  proptest::prelude::*,
  serde::{Deserialize, Serialize},
  serde_json::json,
  std::sync::OnceLock,
};

struct Indexes {
  _node: Node,
  _dirs: Vec<tempfile::TempDir>,
  /// index by (sats, addresses, inscriptions) bits
  indexes: Vec<Index>,
}

static INDEXES: OnceLock<Indexes> = OnceLock::new();

fn indexes() -> &'static Indexes {
  INDEXES.get_or_init(|| {
    let node = Node::new(Network::Regtest);
    let mut dirs = Vec::new();
    let mut indexes = Vec::new();
    for bits in 0..8u8 {
      let dir = scratch_dir();
      let config = IndexConfig {
        sats: bits & 1 != 0,
        addresses: bits & 2 != 0,
        no_inscriptions: bits & 4 == 0,
        runes: false,
        ..IndexConfig::default()
      };
      let index = open_index(&node, dir.path(), &config).expect("open index");
      let flags = verif::index_flags(&index);
      assert_eq!(flags.0, config.sats);
      assert_eq!(flags.1, config.addresses);
      assert_eq!(flags.2, !config.no_inscriptions);
      dirs.push(dir);
      indexes.push(index);
    }
    Indexes {
      _node: node,
      _dirs: dirs,
      indexes,
    }
  })
}

const MAX_SUBSIDY: u64 = 5_000_000_000;

#[derive(Clone, Debug, Serialize, Deserialize)]
pub struct UtxoSpec {
  pub ranges: Vec<(u64, u64)>,
  pub value: u64,
  pub script: Vec<u8>,
  pub inscriptions: Vec<(u32, u64)>,
}

#[derive(Clone, Debug, Serialize, Deserialize)]
pub enum StorageCase {
  SatRange(u64, u64),
  RuneEntry {
    block: u64,
    burned: String,
    divisibility: u8,
    etching: [u8; 32],
    mints: String,
    number: u64,
    premine: String,
    rune: String,
    spacers: u32,
    symbol: Option<char>,
    terms: Option<(Option<String>, Option<String>, Option<u64>, Option<u64>, Option<u64>, Option<u64>)>,
    timestamp: u64,
    turbo: bool,
  },
  InscriptionEntry {
    charms: u16,
    fee: u64,
    height: u32,
    hidden: bool,
    id: ([u8; 32], u32),
    number: i32,
    parents: Vec<u32>,
    sat: Option<u64>,
    sequence_number: u32,
    timestamp: u32,
  },
  Points {
    txid: [u8; 32],
    vout: u32,
    offset: u64,
    index: u32,
    rune_id: (u64, u32),
    header: Vec<u8>,
  },
  Utxo {
    flags: u8,
    entry: UtxoSpec,
  },
  Merged {
    flags: u8,
    a: UtxoSpec,
    b: UtxoSpec,
  },
  Balances(Vec<((u64, u32), String)>),
}

fn p(s: &Option<String>) -> Option<u128> {
  s.as_ref().map(|s| s.parse().unwrap())
}

fn parts(spec: &UtxoSpec) -> UtxoParts {
  UtxoParts {
    ranges: spec.ranges.clone(),
    value: spec.value,
    script: spec.script.clone(),
    inscriptions: spec.inscriptions.clone(),
  }
}

fn check_parsed(
  what: &str,
  flags: u8,
  parsed: &verif::UtxoDump,
  ranges: &[(u64, u64)],
  value: u64,
  script: &[u8],
  inscriptions: &[(u32, u64)],
) -> Result<(), Fail> {
  let sats = flags & 1 != 0;
  let addresses = flags & 2 != 0;
  let has_inscriptions = flags & 4 != 0;
  let expected_value = if sats {
    ranges.iter().map(|(a, b)| b - a).sum::<u64>()
  } else {
    value
  };
  if parsed.value != expected_value {
    return Err(Fail::new(
      format!("utxo|{what}|value"),
      format!("flags {flags:03b}: value {} read back, {expected_value} written", parsed.value),
    ));
  }
  if sats && parsed.ranges.as_deref() != Some(ranges) {
    return Err(Fail::new(
      format!("utxo|{what}|ranges"),
      format!("flags {flags:03b}: ranges {:?} read back, {ranges:?} written", parsed.ranges),
    ));
  }
  if !sats && parsed.ranges.is_some() {
    return Err(Fail::new(format!("utxo|{what}|ranges"), "ranges present without sat index".to_string()));
  }
  if addresses && parsed.script.as_deref() != Some(script) {
    return Err(Fail::new(
      format!("utxo|{what}|script"),
      format!("flags {flags:03b}: script of {} bytes read back differently", script.len()),
    ));
  }
  if has_inscriptions && parsed.inscriptions.as_deref() != Some(inscriptions) {
    return Err(Fail::new(
      format!("utxo|{what}|inscriptions"),
      format!(
        "flags {flags:03b}: inscriptions {:?} read back, {inscriptions:?} written",
        parsed.inscriptions
      ),
    ));
  }
  Ok(())
}

fn storage_check(case: &StorageCase, cx: &Cx) -> CheckResult {
  match case {
    StorageCase::SatRange(start, end) => {
      let range = (*start, *end);
      let bytes = verif::sat_range_bytes(range);
      let back = verif::sat_range_from_bytes(bytes);
      if back != range {
        return cx.fail(Fail::new(
          "sat-range|roundtrip",
          format!("sat range {range:?} stored as {} reads back as {back:?}", hex::encode(bytes)),
        ));
      }
      cx.label("sat-range");
      if end - start > 1 {
        cx.nontrivial(fingerprint(&range));
      }
      cx.sample(2, || json!({"sat_range": [start, end]}));
    }
    StorageCase::RuneEntry {
      block,
      burned,
      divisibility,
      etching,
      mints,
      number,
      premine,
      rune,
      spacers,
      symbol,
      terms,
      timestamp,
      turbo,
    } => {
      let entry = RuneEntry {
        block: *block,
        burned: burned.parse().unwrap(),
        divisibility: *divisibility,
        etching: Txid::from_byte_array(*etching),
        mints: mints.parse().unwrap(),
        number: *number,
        premine: premine.parse().unwrap(),
        spaced_rune: SpacedRune {
          rune: Rune(rune.parse().unwrap()),
          spacers: *spacers,
        },
        symbol: *symbol,
        terms: terms.as_ref().map(|t| Terms {
          amount: p(&t.0),
          cap: p(&t.1),
          height: (t.2, t.3),
          offset: (t.4, t.5),
        }),
        timestamp: *timestamp,
        turbo: *turbo,
      };
      let back = verif::rune_entry_roundtrip(entry);
      if back != entry {
        return cx.fail(Fail::new(
          "rune-entry|roundtrip",
          format!("rune entry {entry:?} reads back as {back:?}"),
        ));
      }
      // through a real redb table
      let dummy_inscription = InscriptionEntry {
        charms: 0,
        fee: 0,
        height: 0,
        hidden: false,
        id: InscriptionId {
          txid: Txid::all_zeros(),
          index: 0,
        },
        inscription_number: 0,
        parents: Vec::new(),
        sat: None,
        sequence_number: 0,
        timestamp: 0,
      };
      let header = dummy_header(&[0; 80]);
      match verif::redb_roundtrip(
        entry,
        dummy_inscription,
        OutPoint::null(),
        SatPoint::default(),
        header,
        &[0],
      ) {
        Ok((e, ..)) if e == entry => {}
        other => {
          return cx.fail(Fail::new(
            "rune-entry|redb",
            format!("rune entry {entry:?} through redb: {:?}", other.map(|x| x.0)),
          ));
        }
      }
      cx.label("rune-entry");
      cx.nontrivial(fingerprint(&format!("{entry:?}")));
      cx.sample(4, || json!({"rune_entry": format!("{entry:?}")}));
    }
    StorageCase::InscriptionEntry {
      charms,
      fee,
      height,
      hidden,
      id,
      number,
      parents,
      sat,
      sequence_number,
      timestamp,
    } => {
      let entry = InscriptionEntry {
        charms: *charms,
        fee: *fee,
        height: *height,
        hidden: *hidden,
        id: InscriptionId {
          txid: Txid::from_byte_array(id.0),
          index: id.1,
        },
        inscription_number: *number,
        parents: parents.clone(),
        sat: sat.map(Sat),
        sequence_number: *sequence_number,
        timestamp: *timestamp,
      };
      let back = verif::inscription_entry_roundtrip(entry.clone());
      if back != entry {
        return cx.fail(Fail::new(
          "inscription-entry|roundtrip",
          format!("inscription entry {entry:?} reads back as {back:?}"),
        ));
      }
      match verif::redb_roundtrip(
        RuneEntry::default(),
        entry.clone(),
        OutPoint::null(),
        SatPoint::default(),
        dummy_header(&[0; 80]),
        &[0],
      ) {
        Ok((_, e, ..)) if e == entry => {}
        other => {
          return cx.fail(Fail::new(
            "inscription-entry|redb",
            format!("inscription entry {entry:?} through redb: {:?}", other.map(|x| x.1)),
          ));
        }
      }
      cx.label("inscription-entry");
      cx.nontrivial(fingerprint(&format!("{entry:?}")));
      cx.sample(6, || json!({"inscription_entry": format!("{entry:?}")}));
    }
    StorageCase::Points {
      txid,
      vout,
      offset,
      index,
      rune_id,
      header,
    } => {
      let txid = Txid::from_byte_array(*txid);
      let outpoint = OutPoint { txid, vout: *vout };
      let satpoint = SatPoint {
        outpoint,
        offset: *offset,
      };
      let id = InscriptionId {
        txid,
        index: *index,
      };
      let rid = RuneId {
        block: rune_id.0,
        tx: rune_id.1,
      };
      let header = dummy_header(header);
      let ok = verif::outpoint_roundtrip(outpoint) == outpoint
        && verif::satpoint_roundtrip(satpoint) == satpoint
        && verif::txid_roundtrip(txid) == txid
        && verif::inscription_id_roundtrip(id) == id
        && verif::rune_id_roundtrip(rid) == rid
        && verif::header_roundtrip(header) == header
        && verif::rune_roundtrip(Rune(u128::from(*offset) << 64 | u128::from(*vout))).0
          == u128::from(*offset) << 64 | u128::from(*vout);
      if !ok {
        return cx.fail(Fail::new(
          "points|roundtrip",
          format!("one of outpoint/satpoint/txid/inscription id/rune id/header does not read back: {case:?}"),
        ));
      }
      match verif::redb_roundtrip(
        RuneEntry::default(),
        InscriptionEntry {
          charms: 0,
          fee: 0,
          height: 0,
          hidden: false,
          id,
          inscription_number: 0,
          parents: Vec::new(),
          sat: None,
          sequence_number: 0,
          timestamp: 0,
        },
        outpoint,
        satpoint,
        header,
        &[0],
      ) {
        Ok((_, e, o, s, h, _)) if e.id == id && o == outpoint && s == satpoint && h == header => {}
        _ => {
          return cx.fail(Fail::new(
            "points|redb",
            format!("outpoint/satpoint/header do not survive redb: {case:?}"),
          ));
        }
      }
      cx.label("points");
      cx.nontrivial(fingerprint(&format!("{case:?}")));
    }
    StorageCase::Utxo { flags, entry } => {
      let index = &indexes().indexes[usize::from(*flags)];
      let bytes = verif::utxo_entry_build(index, &parts(entry));
      let parsed = verif::utxo_entry_parse(index, &bytes);
      if let Err(fail) = check_parsed(
        "single",
        *flags,
        &parsed,
        &entry.ranges,
        entry.value,
        &entry.script,
        &entry.inscriptions,
      ) {
        return cx.fail(fail);
      }
      // and through redb
      match verif::redb_roundtrip(
        RuneEntry::default(),
        InscriptionEntry {
          charms: 0,
          fee: 0,
          height: 0,
          hidden: false,
          id: InscriptionId {
            txid: Txid::all_zeros(),
            index: 0,
          },
          inscription_number: 0,
          parents: Vec::new(),
          sat: None,
          sequence_number: 0,
          timestamp: 0,
        },
        OutPoint::null(),
        SatPoint::default(),
        dummy_header(&[0; 80]),
        &bytes,
      ) {
        Ok((.., b)) if b == bytes => {}
        _ => {
          return cx.fail(Fail::new("utxo|redb", "utxo entry bytes do not survive redb".to_string()));
        }
      }
      cx.label(&format!("utxo-flags-{flags:03b}"));
      if entry.ranges.len() >= 2 && !entry.inscriptions.is_empty() {
        cx.nontrivial(fingerprint(&format!("{case:?}")));
      }
      cx.sample(8, || json!({"utxo": format!("{case:?}").chars().take(300).collect::<String>()}));
    }
    StorageCase::Merged { flags, a, b } => {
      let index = &indexes().indexes[usize::from(*flags)];
      // pseudo-outputs: empty script, zero value without the sat index
      let fix = |spec: &UtxoSpec| UtxoParts {
        ranges: spec.ranges.clone(),
        value: 0,
        script: Vec::new(),
        inscriptions: spec.inscriptions.clone(),
      };
      let (pa, pb) = (fix(a), fix(b));
      let ea = verif::utxo_entry_build(index, &pa);
      let eb = verif::utxo_entry_build(index, &pb);
      let merged = verif::utxo_entry_merged(index, &ea, &eb);
      let parsed = verif::utxo_entry_parse(index, &merged);
      let ranges: Vec<(u64, u64)> = pa.ranges.iter().chain(&pb.ranges).copied().collect();
      let inscriptions: Vec<(u32, u64)> = pa
        .inscriptions
        .iter()
        .chain(&pb.inscriptions)
        .copied()
        .collect();
      if let Err(fail) = check_parsed("merged", *flags, &parsed, &ranges, 0, &[], &inscriptions) {
        return cx.fail(fail);
      }
      cx.label("merged");
      if !ranges.is_empty() && !inscriptions.is_empty() {
        cx.nontrivial(fingerprint(&format!("{case:?}")));
      }
    }
    StorageCase::Balances(list) => {
      let mut buffer = Vec::new();
      for ((block, tx), balance) in list {
        Index::encode_rune_balance(
          RuneId {
            block: *block,
            tx: *tx,
          },
          balance.parse().unwrap(),
          &mut buffer,
        );
      }
      let mut i = 0;
      let mut decoded = Vec::new();
      while i < buffer.len() {
        match Index::decode_rune_balance(&buffer[i..]) {
          Ok(((id, balance), len)) => {
            decoded.push(((id.block, id.tx), balance.to_string()));
            i += len;
          }
          Err(err) => {
            return cx.fail(Fail::new(
              "balances|decode-error",
              format!("balance list {list:?} fails to decode: {err}"),
            ));
          }
        }
      }
      if &decoded != list {
        return cx.fail(Fail::new(
          "balances|roundtrip",
          format!("balance list {list:?} reads back as {decoded:?}"),
        ));
      }
      cx.label("balances");
      if list.len() >= 2 {
        cx.nontrivial(fingerprint(&format!("{list:?}")));
      }
    }
  }
  Ok(())
}

fn dummy_header(bytes: &[u8]) -> Header {
  let mut b = [0u8; 80];
  let n = bytes.len().min(80);
  b[..n].copy_from_slice(&bytes[..n]);
  Header {
    version: bitcoin::block::Version::from_consensus(i32::from_le_bytes(b[0..4].try_into().unwrap())),
    prev_blockhash: BlockHash::from_byte_array(b[4..36].try_into().unwrap()),
    merkle_root: TxMerkleNode::from_byte_array(b[36..68].try_into().unwrap()),
    time: u32::from_le_bytes(b[68..72].try_into().unwrap()),
    bits: CompactTarget::from_consensus(u32::from_le_bytes(b[72..76].try_into().unwrap())),
    nonce: u32::from_le_bytes(b[76..80].try_into().unwrap()),
  }
}

fn sat_range() -> BoxedStrategy<(u64, u64)> {
  (
    prop_oneof![
      2 => 0u64..Sat::SUPPLY,
      1 => (0u64..6_930_000).prop_map(|h| ordinals::Height(h as u32).starting_sat().0),
      1 => Just(Sat::SUPPLY - 1),
      1 => Just(0u64),
      1 => boundary_u64().prop_map(|n| n % Sat::SUPPLY),
    ],
    prop_oneof![
      2 => 0u64..=MAX_SUBSIDY,
      1 => Just(MAX_SUBSIDY),
      1 => Just(1u64),
      1 => Just(0u64),
      1 => (0u32..33).prop_map(|e| MAX_SUBSIDY >> e),
      1 => boundary_u64().prop_map(|n| n % (MAX_SUBSIDY + 1)),
    ],
  )
    .prop_map(|(start, len)| (start, (start + len).min(Sat::SUPPLY)))
    .boxed()
}

fn utxo_spec() -> BoxedStrategy<UtxoSpec> {
  (
    proptest::collection::vec(sat_range(), 0..20),
    boundary_u64(),
    prop_oneof![
      3 => proptest::collection::vec(any::<u8>(), 0..40),
      1 => (0usize..10_001, any::<u8>()).prop_map(|(n, b)| vec![b; n]),
      1 => Just(Vec::new()),
      1 => (126usize..130).prop_map(|n| vec![1u8; n]),
      1 => (16383usize..16386).prop_map(|n| vec![1u8; n]),
    ],
    proptest::collection::vec((any::<u32>(), boundary_u64()), 0..20),
  )
    .prop_map(|(ranges, value, script, inscriptions)| UtxoSpec {
      ranges,
      value,
      script,
      inscriptions,
    })
    .boxed()
}

fn storage_strategy() -> BoxedStrategy<StorageCase> {
  let s128 = || boundary_u128().prop_map(|n| n.to_string());
  let o128 = || proptest::option::of(boundary_u128().prop_map(|n| n.to_string()));
  let o64 = || proptest::option::of(boundary_u64());
  prop_oneof![
    4 => sat_range().prop_map(|(a, b)| StorageCase::SatRange(a, b)),
    2 => (
      (boundary_u64(), s128(), any::<u8>(), any::<[u8; 32]>(), s128(), boundary_u64(), s128()),
      (s128(), any::<u32>(), proptest::option::of(any::<char>()),
       proptest::option::of((o128(), o128(), o64(), o64(), o64(), o64())), boundary_u64(), any::<bool>()),
    ).prop_map(|((block, burned, divisibility, etching, mints, number, premine), (rune, spacers, symbol, terms, timestamp, turbo))| StorageCase::RuneEntry {
      block, burned, divisibility, etching, mints, number, premine, rune, spacers, symbol, terms, timestamp, turbo,
    }),
    2 => (
      (any::<u16>(), boundary_u64(), any::<u32>(), any::<bool>(), (any::<[u8; 32]>(), any::<u32>())),
      (prop_oneof![any::<i32>(), Just(i32::MIN), Just(i32::MAX), -5i32..5], proptest::collection::vec(any::<u32>(), 0..20),
       proptest::option::of(prop_oneof![0u64..Sat::SUPPLY, boundary_u64()]), any::<u32>(), any::<u32>()),
    ).prop_map(|((charms, fee, height, hidden, id), (number, parents, sat, sequence_number, timestamp))| StorageCase::InscriptionEntry {
      charms, fee, height, hidden, id, number, parents, sat, sequence_number, timestamp,
    }),
    2 => (any::<[u8; 32]>(), any::<u32>(), boundary_u64(), any::<u32>(), (boundary_u64(), any::<u32>()), proptest::collection::vec(any::<u8>(), 80..81))
      .prop_map(|(txid, vout, offset, index, rune_id, header)| StorageCase::Points { txid, vout, offset, index, rune_id, header }),
    6 => (0u8..8, utxo_spec()).prop_map(|(flags, entry)| StorageCase::Utxo { flags, entry }),
    3 => (0u8..8, utxo_spec(), utxo_spec()).prop_map(|(flags, a, b)| StorageCase::Merged { flags, a, b }),
    2 => proptest::collection::vec(((boundary_u64(), any::<u32>()), s128()), 0..12).prop_map(StorageCase::Balances),
  ]
  .boxed()
}

pub fn c35(s: &mut Session) -> Meta {
  // open the eight indexes before the workers start
  let _ = indexes();
  let cases = s.tier().pick(100_000, 10_000_000);
  s.run_part(Part::new("encodings", cases, storage_strategy, storage_check).shrink_iters(500));
  Meta {
    level: "exploration",
    rule: "Values in each encoding's domain: sat ranges inside the supply of length 0..=50 BTC (block starts, halved subsidies, boundaries); rune entries and inscription entries with boundary integers, any char symbol, 0..20 parents; outpoints, satpoints, txids, inscription ids, rune ids, 80-byte headers; output entries for all 8 combinations of the sat/address/inscription flags (0..20 ranges, scripts of 0..10,000 bytes incl. varint length boundaries, 0..20 inscriptions with offsets up to u64::MAX); merged pseudo-output entries; rune balance lists. Each is stored with ord's own encoder (hooks) and loaded back, entries also through real redb tables with the index' table definitions (in-memory backend). Non-trivial = output entry with >= 2 ranges and an inscription, merged entry with ranges and inscriptions, any entry/point case, sat range longer than 1, balance list of >= 2; distinct by value.",
    assumptions: &["The eight Index instances only supply the flag combination to the output-entry encoder"],
    required_labels: &["sat-range", "rune-entry", "inscription-entry", "points", "merged", "balances", "utxo-flags-000", "utxo-flags-111", "utxo-flags-101", "utxo-flags-010"],
  }
}
