//! C08 (supply conserved), C09 (edicts/pointers/cenotaphs), C10 (mint
//! terms), C11 (etchings).

use {
  crate::{
    chain::{
      ChainSpec, build_chain,
      strategy::{Profile, chain_spec},
    },
    history::{self, Run, statistic},
    model::{
      is_op_return,
      runes::{RefRuneEntry, RefRunes},
    },
    props::sats::{ConfigSpec, ScheduleSpec, config_spec, genesis, schedule_spec},
    runner::{CheckResult, Cx, Fail, Meta, Part, Session, fingerprint},
  },
  bitcoin::{Block, Network, OutPoint},
  ord::{RuneEntry, verif::Dump},
  ordinals::{Rune, RuneId},
  proptest::prelude::*,
  serde::{Deserialize, Serialize},
  serde_json::json,
  std::collections::{BTreeMap, BTreeSet},
};

#[derive(Clone, Debug, Serialize, Deserialize)]
pub struct RuneCase {
  pub chain: ChainSpec,
  pub config: ConfigSpec,
  pub schedule: ScheduleSpec,
}

pub struct Obs<'a> {
  pub stop: usize,
  pub blocks: &'a [Block],
  pub model: &'a RefRunes,
  pub dump: &'a Dump,
  pub run: &'a Run,
}

type Oracle = fn(&Obs, &Cx) -> CheckResult;

fn harness<E: std::fmt::Display>(what: &str) -> impl Fn(E) -> Fail + '_ {
  move |e| Fail::new("HARNESS-FAULT", format!("{what}: {e:#}"))
}

pub fn run_case(case: &RuneCase, cx: &Cx, oracle: Oracle, tag: &str) -> Result<(crate::chain::BuildStats, RefRunes), Fail> {
  let network = Network::Regtest;
  let built = build_chain(network, &case.chain);
  let blocks = &built.blocks;
  let mut config = case.config.config();
  config.runes = true;
  let mut run = Run::new(network, &config).map_err(harness("open"))?;
  let mut model = RefRunes::new(network, 0);
  model.apply_block(&genesis(network));
  let mut applied = 0;
  for (stop, reopen) in case.schedule.stops(blocks.len()) {
    run.set_chain(&blocks[..stop]);
    if let Err(err) = run.update() {
      cx.fail(Fail::new(
        format!("{tag}|update-error"),
        format!("Index::update failed at {stop} blocks: {err:#}"),
      ))?;
      return Ok((built.stats.clone(), model));
    }
    while applied < stop {
      model.apply_block(&blocks[applied]);
      applied += 1;
    }
    let dump = run.dump().map_err(harness("dump"))?;
    let obs = Obs {
      stop,
      blocks: &blocks[..stop],
      model: &model,
      dump: &dump,
      run: &run,
    };
    oracle(&obs, cx)?;
    if reopen {
      run
        .reopen()
        .map_err(|e| Fail::new(format!("{tag}|reopen"), format!("reopen failed: {e:#}")))?;
    }
  }
  Ok((built.stats.clone(), model))
}

fn model_entry(e: &RuneEntry) -> RefRuneEntry {
  RefRuneEntry {
    block: e.block,
    burned: e.burned,
    divisibility: e.divisibility,
    etching: e.etching,
    mints: e.mints,
    number: e.number,
    premine: e.premine,
    rune: e.spaced_rune.rune.0,
    spacers: e.spaced_rune.spacers,
    symbol: e.symbol,
    terms: e.terms,
    timestamp: e.timestamp,
    turbo: e.turbo,
  }
}

fn index_balances(dump: &Dump) -> BTreeMap<OutPoint, BTreeMap<RuneId, u128>> {
  dump
    .rune_balances
    .iter()
    .map(|(o, list)| (*o, list.iter().cloned().collect()))
    .collect()
}

/// unspent outputs and their scripts, straight from the blocks
fn unspent(network: Network, blocks: &[Block]) -> BTreeMap<OutPoint, Vec<u8>> {
  let mut unspent = BTreeMap::new();
  for block in std::iter::once(&genesis(network)).chain(blocks.iter()) {
    for tx in block.txdata.iter().skip(1).chain(block.txdata.iter().take(1)) {
      for input in &tx.input {
        unspent.remove(&input.previous_output);
      }
      let txid = tx.compute_txid();
      for (vout, o) in tx.output.iter().enumerate() {
        unspent.insert(OutPoint { txid, vout: vout as u32 }, o.script_pubkey.to_bytes());
      }
    }
  }
  unspent
}

// ================================================================= C08

pub fn c08_oracle(obs: &Obs, cx: &Cx) -> CheckResult {
  let stop = obs.stop;
  let dump = obs.dump;
  let entries: BTreeMap<RuneId, &RuneEntry> = dump.rune_entries.iter().map(|(id, e)| (*id, e)).collect();
  let live = unspent(Network::Regtest, obs.blocks);
  let mut sums: BTreeMap<RuneId, u128> = BTreeMap::new();
  let api = obs
    .run
    .index()
    .get_rune_balances()
    .map_err(harness("rune balances"))?;
  let api_map: BTreeMap<OutPoint, BTreeMap<RuneId, u128>> = api
    .iter()
    .map(|(o, l)| (*o, l.iter().cloned().collect()))
    .collect();
  if api_map != index_balances(dump) {
    return cx.fail(Fail::new("c08|api-balances", format!("after {stop} blocks: get_rune_balances differs from the balance table")));
  }
  for (outpoint, list) in &dump.rune_balances {
    let Some(script) = live.get(outpoint) else {
      return cx.fail(Fail::new(
        "c08|balance-on-spent-output",
        format!("after {stop} blocks: spent or unknown output {outpoint} still holds runes {list:?}"),
      ));
    };
    if is_op_return(script) {
      return cx.fail(Fail::new(
        "c08|balance-on-op-return",
        format!("after {stop} blocks: OP_RETURN output {outpoint} holds runes {list:?}"),
      ));
    }
    let mut seen = BTreeSet::new();
    for (id, amount) in list {
      if *amount == 0 {
        return cx.fail(Fail::new("c08|zero-balance", format!("after {stop} blocks: output {outpoint} holds a zero balance of {id}")));
      }
      if !entries.contains_key(id) {
        return cx.fail(Fail::new("c08|unknown-rune", format!("after {stop} blocks: output {outpoint} holds unknown rune {id}")));
      }
      if !seen.insert(*id) {
        return cx.fail(Fail::new("c08|rune-listed-twice", format!("after {stop} blocks: output {outpoint} lists {id} twice")));
      }
      let sum = sums.entry(*id).or_default();
      *sum = sum.checked_add(*amount).ok_or_else(|| Fail::new("c08|sum-overflow", format!("balances of {id} overflow u128")))?;
    }
  }
  for (id, entry) in &entries {
    let circulating = sums.get(id).copied().unwrap_or(0);
    let amount = entry.terms.and_then(|t| t.amount).unwrap_or(0);
    let supply = entry
      .mints
      .checked_mul(amount)
      .and_then(|m| m.checked_add(entry.premine));
    let held = circulating.checked_add(entry.burned);
    if supply.is_none() || held != supply {
      return cx.fail(Fail::new(
        "c08|supply",
        format!(
          "after {stop} blocks: rune {id} ({}): balances {circulating} + burned {} != premine {} + mints {} x amount {amount}",
          entry.spaced_rune, entry.burned, entry.premine, entry.mints
        ),
      ));
    }
    if let Some(cap) = entry.terms.and_then(|t| t.cap) {
      if entry.mints > cap {
        return cx.fail(Fail::new("c08|mints-over-cap", format!("rune {id} has {} mints, cap {cap}", entry.mints)));
      }
    } else if entry.mints > 0 {
      return cx.fail(Fail::new("c08|mints-without-cap", format!("rune {id} has {} mints without a cap", entry.mints)));
    }
  }
  // second opinion: the reference model
  compare_with_model(obs, cx, "c08")
}

fn compare_with_model(obs: &Obs, cx: &Cx, tag: &str) -> CheckResult {
  let stop = obs.stop;
  let dump = obs.dump;
  let model = obs.model;
  // set of runes
  let index_ids: BTreeSet<RuneId> = dump.rune_entries.iter().map(|(id, _)| *id).collect();
  let model_ids: BTreeSet<RuneId> = model.entries.keys().copied().collect();
  if index_ids != model_ids {
    return cx.fail(Fail::new(
      format!("{tag}|model|rune-set"),
      format!(
        "after {stop} blocks: runes created by the index but not by the specification: {:?}; by the specification but not the index: {:?}",
        index_ids.difference(&model_ids).collect::<Vec<_>>(),
        model_ids.difference(&index_ids).collect::<Vec<_>>()
      ),
    ));
  }
  for (id, entry) in &dump.rune_entries {
    let got = model_entry(entry);
    let want = &model.entries[id];
    if &got != want {
      let field = if got.mints != want.mints {
        "mints"
      } else if got.burned != want.burned {
        "burned"
      } else if got.number != want.number {
        "number"
      } else if got.rune != want.rune {
        "name"
      } else if got.terms != want.terms || got.premine != want.premine {
        "terms"
      } else {
        "other"
      };
      return cx.fail(Fail::new(
        format!("{tag}|model|entry-{field}"),
        format!("after {stop} blocks: rune {id}: index entry {got:?}, specification gives {want:?}"),
      ));
    }
  }
  let balances = index_balances(dump);
  if balances != model.balances {
    let outpoint = balances
      .keys()
      .chain(model.balances.keys())
      .find(|o| balances.get(o) != model.balances.get(o))
      .unwrap();
    return cx.fail(Fail::new(
      format!("{tag}|model|balances"),
      format!(
        "after {stop} blocks: output {outpoint} holds {:?}, the specification allocates {:?}",
        balances.get(outpoint),
        model.balances.get(outpoint)
      ),
    ));
  }
  Ok(())
}

fn label_runes(cx: &Cx, model: &RefRunes) {
  if model.tx_facts.iter().any(|f| f.burned_something) {
    cx.label("burn");
  }
  if model.mint_attempts.iter().any(|m| m.accepted) {
    cx.label("mint-accepted");
  }
  if model.tx_facts.iter().any(|f| f.edicts >= 2) {
    cx.label("two-edicts");
  }
  if model.tx_facts.iter().any(|f| f.cenotaph) {
    cx.label("cenotaph");
  }
  if model.tx_facts.iter().any(|f| f.cenotaph && f.input_runes > 0) {
    cx.label("cenotaph-burning-input-runes");
  }
  if model.tx_facts.iter().any(|f| f.split_edict) {
    cx.label("split-edict");
  }
  if model.tx_facts.iter().any(|f| f.zero_amount_edict) {
    cx.label("zero-amount-edict");
  }
  if !model.entries.is_empty() {
    cx.label("rune-etched");
  }
  if model.entries.values().any(|e| e.premine > 0) {
    cx.label("premine");
  }
}

fn c08_check(case: &RuneCase, cx: &Cx) -> CheckResult {
  let (_, model) = run_case(case, cx, c08_oracle, "c08")?;
  label_runes(cx, &model);
  let burn = model.tx_facts.iter().any(|f| f.burned_something);
  let mint = model.mint_attempts.iter().any(|m| m.accepted);
  let two = model.tx_facts.iter().any(|f| f.edicts >= 2 && f.input_runes > 0);
  if burn && mint && two {
    cx.nontrivial(fingerprint(&format!("{:?}", case.chain)));
  }
  cx.sample(3, || json!({"runes": model.entries.len(), "balances": model.balances.len(), "mints": model.mint_attempts.len(), "config": format!("{:?}", case.config)}));
  Ok(())
}

// ================================================================= C09

fn c09_oracle(obs: &Obs, cx: &Cx) -> CheckResult {
  compare_with_model(obs, cx, "c09")
}

fn c09_check(case: &RuneCase, cx: &Cx) -> CheckResult {
  let (_, model) = run_case(case, cx, c09_oracle, "c09")?;
  label_runes(cx, &model);
  let interesting = model
    .tx_facts
    .iter()
    .filter(|f| f.same_rune_twice && (f.split_edict || f.zero_amount_edict) && f.input_runes > 0)
    .count();
  if interesting > 0 {
    cx.label("two-edicts-same-rune-with-split-or-zero");
    cx.nontrivial(fingerprint(&format!("{:?}", case.chain)));
  }
  cx.add_extra("transactions_with_runestones", model.tx_facts.iter().filter(|f| f.edicts > 0 || f.cenotaph).count() as u64);
  cx.sample(3, || json!({"runes": model.entries.len(), "balances": model.balances.len(), "txs_with_edicts": model.tx_facts.iter().filter(|f| f.edicts > 0).count()}));
  Ok(())
}

// ================================================================= C10

fn c10_oracle(obs: &Obs, cx: &Cx) -> CheckResult {
  // the reference `mintable` is written from the specification text
  compare_with_model(obs, cx, "c10")?;
  for (id, entry) in &obs.dump.rune_entries {
    if let Some(cap) = entry.terms.and_then(|t| t.cap) {
      if entry.mints > cap {
        return cx.fail(Fail::new("c10|over-cap", format!("rune {id}: {} mints, cap {cap}", entry.mints)));
      }
    } else if entry.mints != 0 {
      return cx.fail(Fail::new("c10|mint-without-terms", format!("rune {id}: {} mints without cap", entry.mints)));
    }
    // the public mintable() view for the next block agrees with the reference
    let next = obs.stop as u64 + 1;
    let api = entry.mintable(next).ok();
    let reference = crate::model::runes::mintable(&obs.model.entries[id], next).ok();
    if api != reference {
      return cx.fail(Fail::new(
        "c10|mintable-view",
        format!("rune {id}: mintable({next}) = {api:?}, the terms give {reference:?}"),
      ));
    }
  }
  Ok(())
}

fn c10_check(case: &RuneCase, cx: &Cx) -> CheckResult {
  let (_, model) = run_case(case, cx, c10_oracle, "c10")?;
  let mut reasons = BTreeSet::new();
  for attempt in &model.mint_attempts {
    cx.label(&format!("mint-{}", attempt.reason));
    reasons.insert(attempt.reason);
    if attempt.in_cenotaph && attempt.accepted {
      cx.label("mint-in-cenotaph-counted");
    }
  }
  if reasons.contains("ok") && (reasons.contains("start") || reasons.contains("end") || reasons.contains("cap")) {
    cx.nontrivial(fingerprint(&format!("{:?}", case.chain)));
  }
  cx.sample(3, || json!({"mint_attempts": model.mint_attempts.iter().take(8).map(|m| format!("h{} {} {}", m.height, m.id, m.reason)).collect::<Vec<_>>() }));
  Ok(())
}

// ================================================================= C11

fn c11_oracle(obs: &Obs, cx: &Cx) -> CheckResult {
  let stop = obs.stop;
  compare_with_model(obs, cx, "c11")?;
  let dump = obs.dump;
  // numbers dense in etching order (= id order), names and ids one-to-one
  let mut by_id: Vec<(&RuneId, &RuneEntry)> = dump.rune_entries.iter().map(|(id, e)| (id, e)).collect();
  by_id.sort_by_key(|(id, _)| **id);
  for (k, (id, entry)) in by_id.iter().enumerate() {
    if entry.number != k as u64 {
      return cx.fail(Fail::new("c11|number", format!("after {stop} blocks: rune {id} has number {}, is the {k}-th etching", entry.number)));
    }
    if entry.block != id.block {
      return cx.fail(Fail::new("c11|id-block", format!("rune {id} records block {}", entry.block)));
    }
  }
  let names: BTreeMap<u128, RuneId> = dump.rune_to_id.iter().cloned().collect();
  let expected_names: BTreeMap<u128, RuneId> = dump.rune_entries.iter().map(|(id, e)| (e.spaced_rune.rune.0, *id)).collect();
  if names != expected_names || names.len() != dump.rune_entries.len() {
    return cx.fail(Fail::new("c11|name-table", format!("after {stop} blocks: name -> id table {names:?} does not match the entries {expected_names:?}")));
  }
  if statistic(dump, history::STAT_RUNES) != dump.rune_entries.len() as u64 {
    return cx.fail(Fail::new("c11|runes-statistic", format!("runes statistic {} for {} runes", statistic(dump, history::STAT_RUNES), dump.rune_entries.len())));
  }
  if statistic(dump, history::STAT_RESERVED_RUNES) != obs.model.reserved {
    return cx.fail(Fail::new("c11|reserved-statistic", format!("reserved runes statistic {} but {} unnamed etchings", statistic(dump, history::STAT_RESERVED_RUNES), obs.model.reserved)));
  }
  let index = obs.run.index();
  for (id, entry) in dump.rune_entries.iter().take(6) {
    let looked_up = index.rune(entry.spaced_rune.rune).map_err(harness("rune"))?;
    if looked_up.as_ref().map(|(i, _, _)| *i) != Some(*id) {
      return cx.fail(Fail::new("c11|lookup-by-name", format!("Index::rune({}) = {:?}, expected {id}", entry.spaced_rune.rune, looked_up.map(|x| x.0))));
    }
    let by_id = index.get_rune_by_id(*id).map_err(harness("rune by id"))?;
    if by_id != Some(entry.spaced_rune.rune) {
      return cx.fail(Fail::new("c11|lookup-by-id", format!("get_rune_by_id({id}) = {by_id:?}")));
    }
    let etching = index.get_etching(entry.etching).map_err(harness("etching"))?;
    if etching != Some(entry.spaced_rune) {
      return cx.fail(Fail::new("c11|lookup-by-txid", format!("get_etching({}) = {etching:?}", entry.etching)));
    }
    if entry.spaced_rune.rune.is_reserved() {
      let expected = Rune::RESERVED + ((u128::from(id.block) << 32) | u128::from(id.tx));
      if entry.spaced_rune.rune.0 != expected {
        return cx.fail(Fail::new("c11|reserved-name", format!("rune {id} has reserved name {} instead of the one derived from its id", entry.spaced_rune.rune)));
      }
    }
  }
  let txid_to_rune: BTreeMap<bitcoin::Txid, u128> = dump.txid_to_rune.iter().cloned().collect();
  if txid_to_rune != obs.model.txid_to_rune {
    return cx.fail(Fail::new("c11|txid-table", "etching txid -> rune table differs from the model".to_string()));
  }
  Ok(())
}

fn c11_check(case: &RuneCase, cx: &Cx) -> CheckResult {
  let (_, model) = run_case(case, cx, c11_oracle, "c11")?;
  let mut reasons = BTreeSet::new();
  for attempt in &model.etch_attempts {
    cx.label(&format!("etch-{}", attempt.reason));
    reasons.insert(attempt.reason);
    if attempt.cenotaph && attempt.accepted {
      cx.label("cenotaph-etching-accepted");
    }
  }
  if reasons.contains("ok") && reasons.len() >= 3 {
    cx.nontrivial(fingerprint(&format!("{:?}", case.chain)));
  }
  cx.sample(3, || json!({"etch_attempts": model.etch_attempts.iter().take(8).map(|m| format!("h{} tx{} {}", m.height, m.tx, m.reason)).collect::<Vec<_>>() }));
  Ok(())
}

// ------------------------------------------------------------ strategies

fn case_strategy(profile: Profile, cuts: usize) -> BoxedStrategy<RuneCase> {
  (chain_spec(&profile), config_spec(None, None), schedule_spec(cuts))
    .prop_map(|(chain, config, schedule)| RuneCase {
      chain,
      config,
      schedule,
    })
    .boxed()
}

fn thorough(mut p: Profile) -> Profile {
  p.blocks = 3..30;
  p.txs = 0..7;
  p
}

pub fn c08(s: &mut Session) -> Meta {
  let t = s.tier();
  let profile = t.pick(Profile::runes(), thorough(Profile::runes()));
  s.run_part(Part::new("supply", t.pick(1000, 20_000), move || case_strategy(profile.clone(), 3), c08_check).shrink_iters(250).timeout(300));
  Meta {
    level: "exploration",
    rule: "Chains from the rune profile on regtest (runes active from genesis): etchings with commitments aged >= 6 blocks or too young / missing / wrong, premines, terms, mints, 0..6 edicts per runestone (existing / 0:0 / unknown / later-in-block ids; amounts 0, small, fraction, balance, over balance, u128::MAX; split outputs), pointers, cenotaphs of every flaw kind, coinbase runestones, runic outputs spent into OP_RETURN outputs and by plain transactions. After every update call, from index data only: for every rune, sum of balances over get_rune_balances + burned == premine + mints x amount; no zero balance, no unknown rune id, no rune listed twice in an output, no balance on an OP_RETURN output or on a spent/unknown output; mints <= cap. Second opinion: rune entries and balances equal RefRunes (the specification over the same blocks). Non-trivial = chain with a burn, an accepted mint and a transaction with >= 2 edicts and runic inputs; distinct by chain spec.",
    assumptions: &["Runestone::decipher trusted (C25); Rune::minimum_at_height trusted (C33); mock node answers the commitment look-ups"],
    required_labels: &["burn", "mint-accepted", "two-edicts", "cenotaph", "rune-etched", "premine"],
  }
}

pub fn c09(s: &mut Session) -> Meta {
  let t = s.tier();
  let mut profile = Profile::runes();
  profile.max_edicts = 8;
  profile.p_runestone = 0.75;
  profile.p_op_return_output = 0.2;
  profile.max_outputs = 6;
  let profile = t.pick(profile.clone(), thorough(profile));
  s.run_part(Part::new("allocation", t.pick(1000, 20_000), move || case_strategy(profile.clone(), 2), c09_check).shrink_iters(250).timeout(300));
  Meta {
    level: "exploration",
    rule: "Rune-profile chains with denser runestones (0..8 edicts, 75% of transactions carry a runestone, 20% OP_RETURN outputs at random positions incl. all-OP_RETURN transactions, 0..6 outputs). After every update call the index's balances per output and every rune entry (burned, mints, supply fields) must equal RefRunes, which allocates exactly as the specification describes: edicts in order, capped by the unallocated balance, amount 0 = all, output == output count = every non-OP_RETURN output in turn (amount 0 splits evenly, remainder to the first outputs), 0:0 = the rune etched here, leftovers to the pointer or the first non-OP_RETURN output, no eligible output or OP_RETURN output = burned, cenotaph = everything burned. Non-trivial = a transaction with runic inputs and two edicts on the same rune of which one is a split or a zero amount; distinct by chain spec.",
    assumptions: &["as C08"],
    required_labels: &["two-edicts-same-rune-with-split-or-zero", "split-edict", "zero-amount-edict", "cenotaph-burning-input-runes", "burn"],
  }
}

pub fn c10(s: &mut Session) -> Meta {
  let t = s.tier();
  let mut profile = Profile::runes();
  profile.p_etching = 0.3;
  profile.p_runestone = 0.8;
  profile.max_edicts = 2;
  profile.blocks = 6..16;
  let profile = t.pick(profile.clone(), { let mut p = profile; p.blocks = 6..30; p });
  s.run_part(Part::new("mint-terms", t.pick(1000, 20_000), move || case_strategy(profile.clone(), 2), c10_check).shrink_iters(250).timeout(300));
  Meta {
    level: "exploration",
    rule: "Rune-profile chains with many mints: terms are any subset of {cap 0..4 or MAX, amount, absolute start/end at etching height -2..+5, relative start/end 0..5 or u64::MAX / MAX-2 (saturating)}; 40% of runestones mint an existing, unetched, 0:0 or etched-later-in-this-block id; mints in cenotaphs; several mints per block. After every update call entries (mints, burned) and balances must equal RefRunes, whose mintable() is written from the specification (start = later of absolute and relative, end = earlier, start <= height < end, mints < cap); mints never exceed the cap; RuneEntry::mintable for the next block agrees with the reference. Non-trivial = chain with an accepted mint and a mint refused for start, end or cap; distinct by chain spec.",
    assumptions: &["as C08"],
    required_labels: &["mint-ok", "mint-start", "mint-end", "mint-cap", "mint-unetched", "mint-no-terms", "mint-in-cenotaph-counted"],
  }
}

pub fn c11(s: &mut Session) -> Meta {
  let t = s.tier();
  let mut profile = Profile::runes();
  profile.p_etching = 0.6;
  profile.p_runestone = 0.7;
  profile.p_flaw = 0.12;
  let profile = t.pick(profile.clone(), thorough(profile));
  s.run_part(Part::new("etchings", t.pick(700, 12_000), move || case_strategy(profile.clone(), 2), c11_check).shrink_iters(250).timeout(300));
  Meta {
    level: "exploration",
    rule: "Rune-profile chains with many etchings: names fresh and valid, at the minimum for the height -2..+2, reserved, duplicates of etched names (same block and later), unnamed; commitment witness exact / wrong / with trailing zero / absent, spending a P2TR output aged 5..7 blocks or a non-taproot output; etchings inside cenotaphs of every flaw kind; several per block. After every update call: the set of runes, their ids (block, tx index), entries, premine location and balances equal RefRunes (named etching accepted iff name >= minimum, not reserved, not taken, committed by a tapscript push in an input spending a P2TR output with >= 6 confirmations; unnamed in a runestone gets the reserved name of its id; unnamed in a cenotaph creates nothing); numbers are dense in id order; name->id, etching txid->rune and id->entry are one-to-one; Runes / ReservedRunes statistics match; Index::rune, get_rune_by_id, get_etching agree. Non-trivial = chain with an accepted named etching and >= 2 other outcomes; distinct by chain spec.",
    assumptions: &["as C08"],
    required_labels: &["etch-ok", "etch-reserved-name-assigned", "etch-below-minimum", "etch-reserved", "etch-duplicate", "etch-no-commitment", "cenotaph-etching-accepted"],
  }
}
