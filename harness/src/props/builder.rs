//! C20: ordinal-aware sends never misdirect or burn inscriptions.

use {
  crate::{
    runner::{CheckResult, Cx, Fail, Meta, Part, Session, catch, fingerprint, panic_site},
    util::pick_index,
  },
  bitcoin::{
    Address, Amount, Network, OutPoint, ScriptBuf, Transaction, TxOut, Txid, WPubkeyHash, Witness,
    hashes::Hash,
    key::{Secp256k1, TweakedPublicKey},
    secp256k1::{Keypair, SecretKey, XOnlyPublicKey},
  },
  ord::{FeeRate, InscriptionId, Target, TransactionBuilder},
  ordinals::SatPoint,
  proptest::prelude::*,
  serde::{Deserialize, Serialize},
  serde_json::json,
  std::{
    collections::{BTreeMap, BTreeSet},
    sync::OnceLock,
  },
};

const NETWORK: Network = Network::Regtest;

pub fn address_pool() -> &'static Vec<Address> {
  static POOL: OnceLock<Vec<Address>> = OnceLock::new();
  POOL.get_or_init(|| {
    let secp = Secp256k1::new();
    let mut pool = Vec::new();
    for k in 1u8..=10 {
      let secret = SecretKey::from_slice(&[k; 32]).unwrap();
      let keypair = Keypair::from_secret_key(&secp, &secret);
      let (xonly, _) = XOnlyPublicKey::from_keypair(&keypair);
      pool.push(Address::p2tr_tweaked(
        TweakedPublicKey::dangerous_assume_tweaked(xonly),
        NETWORK,
      ));
    }
    for k in 1u8..=4 {
      let script = ScriptBuf::new_p2wpkh(&WPubkeyHash::from_byte_array([k; 20]));
      pool.push(Address::from_script(&script, NETWORK).unwrap());
    }
    // legacy and script-hash recipients have higher dust limits (546 / 540)
    for k in 1u8..=2 {
      let mut p2pkh = vec![0x76, 0xa9, 0x14];
      p2pkh.extend([k; 20]);
      p2pkh.extend([0x88, 0xac]);
      pool.push(Address::from_script(bitcoin::Script::from_bytes(&p2pkh), NETWORK).unwrap());
      let mut p2sh = vec![0xa9, 0x14];
      p2sh.extend([k; 20]);
      p2sh.push(0x87);
      pool.push(Address::from_script(bitcoin::Script::from_bytes(&p2sh), NETWORK).unwrap());
      let mut p2wsh = vec![0x00, 0x20];
      p2wsh.extend([k; 32]);
      pool.push(Address::from_script(bitcoin::Script::from_bytes(&p2wsh), NETWORK).unwrap());
    }
    pool
  })
}

#[derive(Clone, Debug, Serialize, Deserialize)]
pub struct UtxoSpec {
  pub value: u64,
  pub address: u8,
  pub runic: bool,
  pub locked: bool,
  /// offsets (as 16-bit fractions of the value) of inscriptions
  pub inscriptions: Vec<u16>,
}

#[derive(Clone, Debug, Serialize, Deserialize)]
pub enum Recipient {
  Address(u8),
  OpReturn(Vec<u8>),
}

#[derive(Clone, Debug, Serialize, Deserialize)]
pub enum TargetSpec {
  Postage,
  ExactPostage(u64),
  Value(u64),
}

#[derive(Clone, Debug, Serialize, Deserialize)]
pub struct BuilderCase {
  pub utxos: Vec<UtxoSpec>,
  /// which utxo holds the outgoing sat (16-bit choice), usize::MAX style
  /// "not in wallet" when `outgoing_missing`
  pub outgoing_utxo: u16,
  pub outgoing_missing: bool,
  /// offset choice: Inscribed(k) picks the k-th inscription of the utxo
  pub outgoing_offset: OffsetSpec,
  pub recipient: Recipient,
  pub change: (u8, u8),
  pub fee_rate: f64,
  pub target: TargetSpec,
}

#[derive(Clone, Debug, Serialize, Deserialize)]
pub enum OffsetSpec {
  Inscribed(u16),
  Fraction(u16),
  Exact(u64),
  OutOfRange(u64),
}

fn outpoint(i: usize) -> OutPoint {
  let mut bytes = [0u8; 32];
  bytes[0] = (i + 1) as u8;
  bytes[1] = ((i + 1) >> 8) as u8;
  bytes[31] = 0xee;
  OutPoint {
    txid: Txid::from_byte_array(bytes),
    vout: (i % 3) as u32,
  }
}

fn builder_check(case: &BuilderCase, cx: &Cx) -> CheckResult {
  let pool = address_pool();
  let mut amounts: BTreeMap<OutPoint, TxOut> = BTreeMap::new();
  let mut inscriptions: BTreeMap<SatPoint, Vec<InscriptionId>> = BTreeMap::new();
  let mut locked = BTreeSet::new();
  let mut runic = BTreeSet::new();
  let mut counter = 0u32;
  for (i, utxo) in case.utxos.iter().enumerate() {
    let op = outpoint(i);
    amounts.insert(
      op,
      TxOut {
        value: Amount::from_sat(utxo.value),
        script_pubkey: pool[usize::from(utxo.address) % pool.len()].script_pubkey(),
      },
    );
    if utxo.runic {
      runic.insert(op);
    }
    if utxo.locked {
      locked.insert(op);
    }
    for fraction in &utxo.inscriptions {
      let offset = ((u128::from(*fraction) * u128::from(utxo.value)) >> 16) as u64;
      counter += 1;
      inscriptions
        .entry(SatPoint { outpoint: op, offset })
        .or_default()
        .push(InscriptionId {
          txid: Txid::from_byte_array([0x11; 32]),
          index: counter,
        });
    }
  }

  let outgoing = if case.outgoing_missing || case.utxos.is_empty() {
    SatPoint {
      outpoint: outpoint(5000),
      offset: 0,
    }
  } else {
    let i = pick_index(case.outgoing_utxo, case.utxos.len());
    let utxo = &case.utxos[i];
    let offset = match &case.outgoing_offset {
      OffsetSpec::Inscribed(k) if !utxo.inscriptions.is_empty() => {
        let f = utxo.inscriptions[pick_index(*k, utxo.inscriptions.len())];
        ((u128::from(f) * u128::from(utxo.value)) >> 16) as u64
      }
      OffsetSpec::Inscribed(k) | OffsetSpec::Fraction(k) => {
        ((u128::from(*k) * u128::from(utxo.value)) >> 16) as u64
      }
      OffsetSpec::Exact(n) => n % utxo.value.max(1),
      OffsetSpec::OutOfRange(n) => utxo.value.saturating_add(*n % 1000),
    };
    SatPoint {
      outpoint: outpoint(i),
      offset,
    }
  };

  let recipient = match &case.recipient {
    Recipient::Address(k) => pool[usize::from(*k) % pool.len()].script_pubkey(),
    Recipient::OpReturn(data) => {
      let mut script = vec![0x6a];
      let data = &data[..data.len().min(60)];
      script.push(data.len() as u8);
      script.extend(data);
      ScriptBuf::from_bytes(script)
    }
  };
  // ord wallets are taproot-only (both change addresses come from
  // `Wallet::get_change_address`), so change scripts are always P2TR
  let change = [
    pool[usize::from(case.change.0) % 10].clone(),
    pool[usize::from(case.change.1) % 10].clone(),
  ];
  let Ok(fee_rate) = FeeRate::try_from(case.fee_rate) else {
    cx.label("invalid-fee-rate");
    return Ok(());
  };
  // A target of 0 sats for an OP_RETURN recipient is not a meaningful
  // request (the recipient output has to hold the outgoing sat) and no
  // caller in ord can produce it (burn always asks for 1 sat; address
  // recipients are covered by the dust check): the domain starts at 1 sat.
  let burn = matches!(case.recipient, Recipient::OpReturn(_));
  let floor = |v: u64| if burn { v.max(1) } else { v };
  let case_target = match case.target {
    // `ord wallet burn` always asks for an exact postage; the default
    // postage target is only used with address recipients
    TargetSpec::Postage if burn => TargetSpec::ExactPostage(1),
    TargetSpec::Postage => TargetSpec::Postage,
    TargetSpec::ExactPostage(v) => TargetSpec::ExactPostage(floor(v)),
    TargetSpec::Value(v) => TargetSpec::Value(floor(v)),
  };
  let target = || match case_target {
    TargetSpec::Postage => Target::Postage,
    TargetSpec::ExactPostage(v) => Target::ExactPostage(Amount::from_sat(v)),
    TargetSpec::Value(v) => Target::Value(Amount::from_sat(v)),
  };

  let result = catch(|| {
    TransactionBuilder::new(
      outgoing,
      inscriptions.clone(),
      amounts.clone(),
      locked.clone(),
      runic.clone(),
      recipient.clone(),
      change.clone(),
      fee_rate,
      target(),
      NETWORK,
    )
    .build_transaction()
  });

  let tx = match result {
    Err(record) => {
      let invariant = record
        .message
        .split("invariant:")
        .nth(1)
        .map(|s| s.trim().chars().take(40).collect::<String>())
        .unwrap_or_else(|| record.message.chars().take(40).collect());
      return cx.fail(Fail::new(
        format!(
          "builder|panic|{}|{}|{}",
          panic_site(&record),
          invariant.replace(' ', "-").replace('\n', ""),
          match case_target {
            TargetSpec::Postage => "postage",
            TargetSpec::ExactPostage(_) => "exact-postage",
            TargetSpec::Value(_) => "value",
          }
        ),
        format!(
          "TransactionBuilder panics at {}: {}\n case = {case:?}",
          record.location, record.message
        ),
      ));
    }
    Ok(Err(err)) => {
      cx.label(&format!(
        "err-{}",
        format!("{err:?}").split(['(', '{', ' ']).next().unwrap_or("")
      ));
      return Ok(());
    }
    Ok(Ok(tx)) => tx,
  };

  if let Err(fail) = validate(
    &tx,
    outgoing,
    &inscriptions,
    &amounts,
    &locked,
    &runic,
    &recipient,
    &change,
    fee_rate,
    &case_target,
  ) {
    return cx.fail(Fail::new(
      fail.sig,
      format!("{}\n tx = {tx:?}\n case = {case:?}", fail.msg),
    ));
  }

  cx.label("ok");
  cx.label(&format!("inputs-{}", tx.input.len().min(4)));
  let has_alignment = tx.output[0].script_pubkey != recipient;
  let has_change = tx.output.last().unwrap().script_pubkey != recipient;
  if has_alignment {
    cx.label("alignment-output");
  }
  if has_change {
    cx.label("change-output");
  }
  if matches!(case.recipient, Recipient::OpReturn(_)) {
    cx.label("ok-burn");
  }
  if tx.input.len() >= 2 && (has_alignment || has_change) {
    cx.nontrivial(fingerprint(&format!("{case:?}")));
  }
  cx.sample(4, || json!({"case": format!("{case:?}"), "tx_inputs": tx.input.len(), "tx_outputs": tx.output.iter().map(|o| o.value.to_sat()).collect::<Vec<_>>() }));
  Ok(())
}

#[allow(clippy::too_many_arguments)]
fn validate(
  tx: &Transaction,
  outgoing: SatPoint,
  inscriptions: &BTreeMap<SatPoint, Vec<InscriptionId>>,
  amounts: &BTreeMap<OutPoint, TxOut>,
  locked: &BTreeSet<OutPoint>,
  runic: &BTreeSet<OutPoint>,
  recipient: &ScriptBuf,
  change: &[Address; 2],
  fee_rate: FeeRate,
  target: &TargetSpec,
) -> Result<(), Fail> {
  // inputs exist in the wallet, no duplicates
  let mut seen = BTreeSet::new();
  let mut input_starts = BTreeMap::new();
  let mut total_in: u128 = 0;
  for input in &tx.input {
    let Some(txout) = amounts.get(&input.previous_output) else {
      return Err(Fail::new("builder|foreign-input", format!("input {} is not a wallet utxo", input.previous_output)));
    };
    if !seen.insert(input.previous_output) {
      return Err(Fail::new("builder|duplicate-input", format!("input {} spent twice", input.previous_output)));
    }
    input_starts.insert(input.previous_output, total_in);
    total_in += u128::from(txout.value.to_sat());
  }
  // outgoing sat position in the input stream
  let Some(start) = input_starts.get(&outgoing.outpoint) else {
    return Err(Fail::new("builder|outgoing-not-spent", "the outgoing outpoint is not an input".to_string()));
  };
  let position = start + u128::from(outgoing.offset);

  // exactly one recipient output; the outgoing sat is its first sat
  let recipient_outputs: Vec<usize> = tx
    .output
    .iter()
    .enumerate()
    .filter(|(_, o)| &o.script_pubkey == recipient)
    .map(|(i, _)| i)
    .collect();
  if recipient_outputs.len() != 1 {
    return Err(Fail::new(
      "builder|recipient-count",
      format!("{} recipient outputs", recipient_outputs.len()),
    ));
  }
  let r = recipient_outputs[0];
  let recipient_start: u128 = tx.output[..r].iter().map(|o| u128::from(o.value.to_sat())).sum();
  let recipient_value = tx.output[r].value.to_sat();
  if recipient_start != position {
    return Err(Fail::new(
      "builder|misaligned",
      format!("outgoing sat is at input offset {position} but the recipient output starts at {recipient_start}"),
    ));
  }
  if recipient_value == 0 {
    return Err(Fail::new("builder|empty-recipient", "recipient output has no sats".to_string()));
  }
  let total_out: u128 = tx.output.iter().map(|o| u128::from(o.value.to_sat())).sum();
  if total_out > total_in {
    return Err(Fail::new("builder|overspend", format!("outputs {total_out} > inputs {total_in}")));
  }

  // no runic, locked or other inscribed utxo is spent
  let inscribed: BTreeSet<OutPoint> = inscriptions.keys().map(|s| s.outpoint).collect();
  for input in &tx.input {
    let op = input.previous_output;
    if op == outgoing.outpoint {
      continue;
    }
    if runic.contains(&op) {
      return Err(Fail::new("builder|spends-runic", format!("runic utxo {op} is spent")));
    }
    if locked.contains(&op) {
      return Err(Fail::new("builder|spends-locked", format!("locked utxo {op} is spent")));
    }
    if inscribed.contains(&op) {
      return Err(Fail::new("builder|spends-inscribed", format!("inscribed utxo {op} is spent")));
    }
  }

  // no other inscription goes to the recipient or into fees
  for satpoint in inscriptions.keys() {
    let Some(start) = input_starts.get(&satpoint.outpoint) else {
      continue;
    };
    let p = start + u128::from(satpoint.offset);
    if p == position {
      continue; // on the outgoing sat itself
    }
    if p >= total_out {
      return Err(Fail::new(
        "builder|inscription-to-fee",
        format!("inscription at {satpoint} is spent to fees"),
      ));
    }
    if p >= recipient_start && p < recipient_start + u128::from(recipient_value) {
      return Err(Fail::new(
        "builder|inscription-to-recipient",
        format!("inscription at {satpoint} goes to the recipient along with the outgoing sat"),
      ));
    }
  }

  // all other outputs are change, each change address at most once; no dust
  let change_scripts: Vec<ScriptBuf> = change.iter().map(|a| a.script_pubkey()).collect();
  for (i, output) in tx.output.iter().enumerate() {
    if i != r {
      if !change_scripts.contains(&output.script_pubkey) {
        return Err(Fail::new("builder|unknown-output", format!("output {i} is neither recipient nor change")));
      }
      if tx
        .output
        .iter()
        .filter(|o| o.script_pubkey == output.script_pubkey)
        .count()
        > 1
      {
        return Err(Fail::new("builder|change-reused", format!("change script of output {i} appears twice")));
      }
    }
    if output.value < output.script_pubkey.minimal_non_dust() {
      return Err(Fail::new(
        "builder|dust",
        format!("output {i} value {} is below dust {}", output.value, output.script_pubkey.minimal_non_dust()),
      ));
    }
  }

  // fee = rate * estimated signed size
  let mut signed = tx.clone();
  for input in &mut signed.input {
    input.witness = Witness::from_slice(&[&[0u8; 64]]);
  }
  let expected_fee = fee_rate.fee(signed.vsize()).to_sat();
  let actual_fee = (total_in - total_out) as u64;
  if actual_fee != expected_fee {
    return Err(Fail::new(
      "builder|fee",
      format!("fee {actual_fee} but rate × vsize({}) = {expected_fee}", signed.vsize()),
    ));
  }

  // target
  let slop = fee_rate.fee(43).to_sat();
  match target {
    TargetSpec::Value(v) => {
      if recipient_value < *v {
        return Err(Fail::new(
          "builder|value-short",
          format!("recipient gets {recipient_value} < requested {v}"),
        ));
      }
    }
    TargetSpec::Postage => {
      if recipient_value > 20_000u64.saturating_add(slop) {
        return Err(Fail::new(
          "builder|postage-excess",
          format!("recipient gets {recipient_value} > 20000 + {slop}"),
        ));
      }
    }
    TargetSpec::ExactPostage(v) => {
      if recipient_value > v.saturating_add(slop) {
        return Err(Fail::new(
          "builder|postage-excess",
          format!("recipient gets {recipient_value} > {v} + {slop}"),
        ));
      }
    }
  }
  Ok(())
}

fn value_strategy() -> BoxedStrategy<u64> {
  prop_oneof![
    3 => 1u64..2000,
    3 => 200u64..1000,
    3 => 1000u64..100_000,
    2 => (0u32..51).prop_map(|b| 1u64 << b),
    2 => (0u32..51, 0u64..1000).prop_map(|(b, d)| (1u64 << b) + d),
    1 => Just(10_000u64),
    1 => Just(20_000u64),
    1 => Just(330u64),
    1 => Just(294u64),
    1 => Just(546u64),
    1 => Just(540u64),
    2 => 250u64..1200,
    1 => Just(2_100_000_000_000_000u64),
  ]
  .boxed()
}

fn builder_strategy() -> BoxedStrategy<BuilderCase> {
  let utxo = (
    value_strategy(),
    0u8..20,
    proptest::bool::weighted(0.1),
    proptest::bool::weighted(0.1),
    prop_oneof![
      6 => Just(Vec::new()),
      3 => proptest::collection::vec(prop_oneof![Just(0u16), any::<u16>(), Just(u16::MAX)], 1..2),
      1 => proptest::collection::vec(any::<u16>(), 2..4),
    ],
  )
    .prop_map(|(value, address, runic, locked, inscriptions)| UtxoSpec {
      value,
      address,
      runic,
      locked,
      inscriptions,
    });
  let fee_rate = prop_oneof![
    3 => Just(0.0f64),
    4 => 0.0f64..3.0,
    4 => 1.0f64..100.0,
    2 => 100.0f64..100_000.0,
    1 => (0u32..17).prop_map(|e| 10f64.powi(e as i32)),
    1 => Just(1e15f64),
    1 => Just(1e17f64),
    1 => Just(f64::MAX),
    1 => Just(f64::MIN_POSITIVE),
    1 => Just(0.5f64),
    1 => Just(0.004f64),
  ];
  let target = prop_oneof![
    4 => Just(TargetSpec::Postage),
    3 => value_strategy().prop_map(TargetSpec::ExactPostage),
    3 => value_strategy().prop_map(TargetSpec::Value),
    1 => Just(TargetSpec::Value(0)),
    1 => Just(TargetSpec::ExactPostage(u64::MAX)),
    1 => Just(TargetSpec::Value(u64::MAX / 2)),
  ];
  let recipient = prop_oneof![
    8 => (0u8..20).prop_map(Recipient::Address),
    2 => proptest::collection::vec(any::<u8>(), 0..40).prop_map(Recipient::OpReturn),
  ];
  let offset = prop_oneof![
    4 => any::<u16>().prop_map(OffsetSpec::Inscribed),
    3 => prop_oneof![Just(0u16), any::<u16>(), Just(u16::MAX)].prop_map(OffsetSpec::Fraction),
    2 => any::<u64>().prop_map(OffsetSpec::Exact),
    2 => (0u64..700).prop_map(OffsetSpec::Exact),
    1 => any::<u64>().prop_map(OffsetSpec::OutOfRange),
  ];
  (
    proptest::collection::vec(utxo, 0..14),
    any::<u16>(),
    proptest::bool::weighted(0.03),
    offset,
    recipient,
    (0u8..14, 0u8..14),
    fee_rate,
    target,
  )
    .prop_map(
      |(mut utxos, outgoing_utxo, outgoing_missing, outgoing_offset, recipient, change, fee_rate, target)| {
        // a wallet cannot hold more than the supply
        let mut total: u128 = utxos.iter().map(|u| u128::from(u.value)).sum();
        while total > 2_099_999_997_690_000 {
          let largest = utxos.iter_mut().max_by_key(|u| u.value).unwrap();
          total -= u128::from(largest.value - largest.value / 2 - 0);
          largest.value = (largest.value / 2).max(1);
          total = utxos.iter().map(|u| u128::from(u.value)).sum();
        }
        BuilderCase {
          utxos,
          outgoing_utxo,
          outgoing_missing,
          outgoing_offset,
          recipient,
          change,
          fee_rate,
          target,
        }
      },
    )
    .boxed()
}

pub fn c20(s: &mut Session) -> Meta {
  let _ = address_pool();
  let cases = s.tier().pick(2_000_000, 6_000_000);
  s.run_part(Part::new("send", cases, builder_strategy, builder_check).shrink_iters(3000));
  Meta {
    level: "exploration",
    rule: "Wallet states of 0..13 UTXOs (values 1 sat .. 21M BTC, log-distributed with many around dust, 10,000 and 20,000; total <= supply), inscriptions at arbitrary offsets (0, end, several per output), runic and locked subsets, outgoing satpoint (inscribed, cardinal, exact small offsets, out of range, not in wallet), recipient (p2tr, p2wpkh, p2pkh, p2sh, p2wsh or OP_RETURN burn script), change addresses (distinct or equal, possibly equal to the recipient), fee rate 0 .. f64::MAX incl. fractional, target Postage / ExactPostage(v) / Value(v) incl. 0 and huge. Oracle: a panic is a violation; Err is fine; Ok(tx) is validated by an independent checker (outgoing sat first in the single recipient output by FIFO over the chosen inputs; no other inscription to the recipient or into fees; no runic/locked/other inscribed input; all other outputs are the change scripts, each at most once; no dust; value >= v for Value, <= cap + fee(43 vB) for postage targets; fee == rate × vsize with 64-byte witnesses). Non-trivial = Ok result with >= 2 inputs and an alignment or change output; distinct by case.",
    assumptions: &[
      "UTXO values are >= 1 sat (the property quantifies over 'values from dust to large'); zero-value wallet outputs are outside the generated domain",
      "Inscription offsets lie inside their outputs, as the index guarantees (C04)",
      "Both change addresses are P2TR, as every ord wallet produces them; a burn (OP_RETURN recipient) asks for at least 1 sat",
    ],
    required_labels: &["ok", "alignment-output", "change-output", "ok-burn", "inputs-1", "inputs-2", "inputs-3", "err-NotEnoughCardinalUtxos", "err-UtxoContainsAdditionalInscriptions", "err-OutOfRange", "err-NotInWallet", "err-DuplicateAddress", "err-Dust"],
  }
}
