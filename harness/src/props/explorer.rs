//! C18: explorer JSON and recursive endpoints agree with the index.
//! Oracle: the H1 table dump (and the generated blocks) — never the Index
//! method a handler itself calls.

use {
  crate::{
    chain::{
      BlockSpec, ChainSpec, ClaimSpec, CoinbaseSpec, EnvelopeSpec, FeeSpec, InputSel, OutSpec,
      ParentRef, PointerSpec, ScriptKind, TxSpec, WitnessSpec, build_chain,
      strategy::{Profile, chain_spec},
    },
    node::IndexConfig,
    runner::{CheckResult, Cx, Fail, Meta, Part, Session, fingerprint},
    server::{ServerOptions, TestServer},
  },
  bitcoin::{Block, Network, OutPoint},
  ord::{InscriptionId, api, verif::Dump},
  ordinals::{Charm, Sat, SatPoint},
  proptest::prelude::*,
  serde::{Deserialize, Serialize},
  serde_json::json,
  std::collections::BTreeMap,
};

#[derive(Clone, Debug, Serialize, Deserialize)]
pub struct ExplorerCase {
  pub chain: ChainSpec,
  pub sats: bool,
  pub addresses: bool,
  pub transactions: bool,
  /// append a block with this many children of the first inscription
  pub bulk_children: u8,
  /// append a block with this many reinscriptions of one sat
  pub bulk_same_sat: u8,
}

fn harness<E: std::fmt::Display>(what: &str) -> impl Fn(E) -> Fail + '_ {
  move |e| Fail::new("HARNESS-FAULT", format!("{what}: {e:#}"))
}

fn bulk_block(n: usize, parents: bool) -> BlockSpec {
  let envelope = |k: usize| EnvelopeSpec {
    content_type: Some(0),
    body: Some(vec![k as u8]),
    pointer: if parents { None } else { Some(PointerSpec::Inside(0)) },
    parents: if parents { vec![ParentRef::InInputs(0)] } else { Vec::new() },
    ..Default::default()
  };
  BlockSpec {
    coinbase: CoinbaseSpec {
      outputs: vec![OutSpec {
        weight: 1,
        zero: false,
        script: ScriptKind::P2tr(2),
      }],
      claim: ClaimSpec::Full,
      duplicate_of_earlier: None,
      runestone: None,
    },
    txs: vec![TxSpec {
      inputs: vec![InputSel::Inscribed(0)],
      outputs: vec![OutSpec {
        weight: 1,
        zero: false,
        script: ScriptKind::P2tr(3),
      }],
      fee: FeeSpec::Zero,
      witnesses: vec![WitnessSpec::Envelopes((0..n).map(envelope).collect())],
      runestone: None,
    }],
  }
}

fn mismatch(route: &str, what: &str, got: impl std::fmt::Debug, want: impl std::fmt::Debug) -> Fail {
  let class = route
    .split('/')
    .filter(|s| !s.is_empty())
    .map(|s| if s.len() > 20 || s.chars().all(|c| c.is_ascii_digit() || c == '-') { "_" } else { s })
    .collect::<Vec<_>>()
    .join("/");
  Fail::new(
    format!("c18|{class}|{what}"),
    format!("GET {route}: {what} = {got:?}, the index says {want:?}"),
  )
}

fn page<T: Clone>(all: &[T], page: usize, size: usize) -> (Vec<T>, bool) {
  let start = (page * size).min(all.len());
  let end = (start + size).min(all.len());
  (all[start..end].to_vec(), all.len() > end)
}

fn c18_check(case: &ExplorerCase, cx: &Cx) -> CheckResult {
  let network = Network::Regtest;
  let mut spec = case.chain.clone();
  if case.bulk_children > 0 {
    spec.blocks.push(bulk_block(100 + usize::from(case.bulk_children), true));
  }
  if case.bulk_same_sat > 0 {
    spec.blocks.push(bulk_block(100 + usize::from(case.bulk_same_sat), false));
  }
  let built = build_chain(network, &spec);
  let blocks: &[Block] = &built.blocks;
  let config = IndexConfig {
    sats: case.sats,
    addresses: case.addresses,
    transactions: case.transactions,
    runes: true,
    no_inscriptions: false,
    commit_interval: 5000,
    savepoint_interval: 10,
    max_savepoints: 2,
    integration_test: true,
    first_inscription_height: None,
  };
  let server = TestServer::start(
    network,
    &config,
    blocks,
    &ServerOptions {
      csp_origin: None,
      decompress: false,
      hidden: Vec::new(),
      disable_json_api: false,
    },
  )
  .map_err(harness("server"))?;
  let dump: Dump = ord::verif::dump(&server.index).map_err(harness("dump"))?;
  let mut requests = 0u64;

  // ground truth from the blocks
  let mut outputs: BTreeMap<OutPoint, (u64, Vec<u8>)> = BTreeMap::new();
  let genesis = bitcoin::blockdata::constants::genesis_block(network);
  for block in std::iter::once(&genesis).chain(blocks.iter()) {
    for tx in &block.txdata {
      let txid = tx.compute_txid();
      for (vout, o) in tx.output.iter().enumerate() {
        outputs.insert(OutPoint { txid, vout: vout as u32 }, (o.value.to_sat(), o.script_pubkey.to_bytes()));
      }
    }
  }
  let address_of = |script: &[u8]| {
    bitcoin::Address::from_script(bitcoin::Script::from_bytes(script), network)
      .ok()
      .map(|a| a.to_string())
  };
  let entries: BTreeMap<u32, &ord::verif::InscriptionEntry> = dump.entries.iter().map(|(s, e)| (*s, e)).collect();
  let satpoints: BTreeMap<u32, SatPoint> = dump.sequence_number_to_satpoint.iter().cloned().collect();
  let id_of = |seq: u32| entries[&seq].id;
  let children_of = |seq: u32| -> Vec<u32> { dump.children.iter().filter(|(p, _)| *p == seq).map(|(_, c)| *c).collect() };

  macro_rules! get {
    ($ty:ty, $path:expr) => {{
      requests += 1;
      match server.json::<$ty>(&$path) {
        Ok(v) => v,
        Err(err) => {
          return cx.fail(Fail::new(
            "c18|request-failed",
            format!("GET {} with Accept: application/json failed: {err:#}", $path),
          ));
        }
      }
    }};
  }

  // ---------------------------------------------------------- inscriptions
  let sample: Vec<u32> = {
    let n = dump.entries.len() as u32;
    let mut v: Vec<u32> = (0..n.min(6)).collect();
    v.extend((n.saturating_sub(4)..n).filter(|s| *s >= 6));
    // every parent, and something from the middle
    v.extend(dump.children.iter().map(|(p, _)| *p).take(3));
    v.push(n / 2);
    v.sort();
    v.dedup();
    v.into_iter().filter(|s| *s < n).collect()
  };
  let mut lost = false;
  let mut unbound = false;
  let mut burned = false;
  for seq in &sample {
    let entry = entries[seq];
    let satpoint = satpoints[seq];
    let route = format!("/inscription/{}", entry.id);
    let got = get!(api::Inscription, route);
    let mut charms = entry.charms;
    if satpoint.outpoint == OutPoint::null() {
      Charm::Lost.set(&mut charms);
      lost = true;
    }
    if satpoint.outpoint == ord::unbound_outpoint() {
      unbound = true;
    }
    if Charm::Burned.is_set(charms) {
      burned = true;
    }
    let special = satpoint.outpoint == OutPoint::null() || satpoint.outpoint == ord::unbound_outpoint();
    let output = (!special).then(|| outputs.get(&satpoint.outpoint)).flatten();
    let kids = children_of(*seq);
    let checks: Vec<(&str, String, String)> = vec![
      ("id", got.id.to_string(), entry.id.to_string()),
      ("number", got.number.to_string(), entry.inscription_number.to_string()),
      ("satpoint", got.satpoint.to_string(), satpoint.to_string()),
      ("sat", format!("{:?}", got.sat), format!("{:?}", entry.sat)),
      ("height", got.height.to_string(), entry.height.to_string()),
      ("fee", got.fee.to_string(), entry.fee.to_string()),
      ("charms", format!("{:?}", got.charms), format!("{:?}", Charm::charms(charms))),
      ("value", format!("{:?}", got.value), format!("{:?}", output.map(|o| o.0))),
      ("address", format!("{:?}", got.address), format!("{:?}", output.and_then(|o| address_of(&o.1)))),
      ("child_count", got.child_count.to_string(), kids.len().to_string()),
      ("children", format!("{:?}", got.children), format!("{:?}", kids.iter().take(4).map(|c| id_of(*c)).collect::<Vec<_>>())),
      ("parents", format!("{:?}", got.parents), format!("{:?}", entry.parents.iter().take(4).map(|p| id_of(*p)).collect::<Vec<_>>())),
      ("previous", format!("{:?}", got.previous), format!("{:?}", seq.checked_sub(1).map(id_of))),
      ("next", format!("{:?}", got.next), format!("{:?}", entries.get(&(seq + 1)).map(|e| e.id))),
      ("timestamp", got.timestamp.to_string(), entry.timestamp.to_string()),
    ];
    for (field, g, w) in checks {
      if g != w {
        return cx.fail(mismatch(&route, field, g, w));
      }
    }
    // by number
    let by_number = get!(api::Inscription, format!("/inscription/{}", entry.inscription_number));
    if by_number.id != entry.id {
      return cx.fail(mismatch(&format!("/inscription/{}", entry.inscription_number), "id", by_number.id, entry.id));
    }
    // recursive view
    let route = format!("/r/inscription/{}", entry.id);
    let r = get!(api::InscriptionRecursive, route);
    let checks: Vec<(&str, String, String)> = vec![
      ("number", r.number.to_string(), entry.inscription_number.to_string()),
      ("satpoint", r.satpoint.to_string(), satpoint.to_string()),
      ("output", r.output.to_string(), satpoint.outpoint.to_string()),
      ("sat", format!("{:?}", r.sat), format!("{:?}", entry.sat)),
      ("charms", format!("{:?}", r.charms), format!("{:?}", Charm::charms(entry.charms))),
      ("fee", r.fee.to_string(), entry.fee.to_string()),
      ("height", r.height.to_string(), entry.height.to_string()),
    ];
    for (field, g, w) in checks {
      if g != w {
        return cx.fail(mismatch(&route, field, g, w));
      }
    }
    if satpoint.outpoint != ord::unbound_outpoint() && satpoint.outpoint != OutPoint::null() {
      let want = outputs.get(&satpoint.outpoint).map(|o| o.0);
      if r.value != want {
        return cx.fail(mismatch(&route, "value", r.value, want));
      }
    }
    // children listings
    if !kids.is_empty() {
      let ids: Vec<InscriptionId> = kids.iter().map(|c| id_of(*c)).collect();
      for p in 0..=(ids.len() / 100) {
        let route = if p == 0 { format!("/r/children/{}", entry.id) } else { format!("/r/children/{}/{p}", entry.id) };
        let got = get!(api::Children, route);
        let (want, more) = page(&ids, p, 100);
        if got.ids != want || got.more != more || got.page != p {
          return cx.fail(mismatch(&route, "page", (got.ids.len(), got.more, got.page, got.ids.first().copied()), (want.len(), more, p, want.first().copied())));
        }
      }
      let route = format!("/r/children/{}/inscriptions", entry.id);
      let got = get!(api::ChildInscriptions, route);
      let (want, more) = page(&ids, 0, 100);
      let got_ids: Vec<InscriptionId> = got.children.iter().map(|c| c.id).collect();
      if got_ids != want || got.more != more {
        return cx.fail(mismatch(&route, "children", got_ids.len(), want.len()));
      }
      for child in got.children.iter().take(3) {
        let cseq = dump.id_to_sequence_number.iter().find(|(i, _)| *i == child.id).map(|x| x.1).unwrap();
        if child.satpoint != satpoints[&cseq] || child.number != entries[&cseq].inscription_number {
          return cx.fail(mismatch(&route, "child", (child.satpoint, child.number), (satpoints[&cseq], entries[&cseq].inscription_number)));
        }
      }
      // /inscription/<parent>/<k>
      let k = kids.len() - 1;
      let route = format!("/inscription/{}/{k}", entry.id);
      let got = get!(api::Inscription, route);
      if got.id != ids[k] {
        return cx.fail(mismatch(&route, "id", got.id, ids[k]));
      }
    }
    if !entry.parents.is_empty() {
      let route = format!("/r/parents/{}", entry.id);
      let got = get!(api::Inscriptions, route);
      let want: Vec<InscriptionId> = entry.parents.iter().map(|p| id_of(*p)).collect();
      if got.ids != want {
        return cx.fail(mismatch(&route, "ids", got.ids, want));
      }
    }
  }

  // ---------------------------------------------------------- per block
  let tip = blocks.len() as u32;
  for h in (1..=tip).rev().take(4).chain(1..=tip.min(2)) {
    let in_block: Vec<InscriptionId> = dump.entries.iter().filter(|(_, e)| e.height == h).map(|(_, e)| e.id).collect();
    for p in 0..=(in_block.len() / 100) {
      let route = if p == 0 { format!("/inscriptions/block/{h}") } else { format!("/inscriptions/block/{h}/{p}") };
      let got = get!(api::Inscriptions, route);
      let (want, more) = page(&in_block, p, 100);
      if got.ids != want || got.more != more {
        return cx.fail(mismatch(&route, "ids", (got.ids.len(), got.more), (want.len(), more)));
      }
    }
    let route = format!("/r/blockhash/{h}");
    let got = get!(String, route);
    let want = blocks[h as usize - 1].block_hash().to_string();
    if got != want {
      return cx.fail(mismatch(&route, "hash", got, want));
    }
  }
  let got = get!(u32, "/r/blockheight".to_string());
  if got != tip {
    return cx.fail(mismatch("/r/blockheight", "height", got, tip));
  }
  let got = get!(String, "/r/blockhash".to_string());
  if got != blocks.last().map(|b| b.block_hash().to_string()).unwrap_or_default() {
    return cx.fail(mismatch("/r/blockhash", "hash", got, "tip hash"));
  }
  let status = get!(api::Status, "/status".to_string());
  let stat = |k: u64| dump.statistics.iter().find(|(key, _)| *key == k).map(|x| x.1).unwrap_or(0);
  if status.height != Some(tip)
    || status.inscriptions != dump.entries.len() as u64
    || status.blessed_inscriptions != stat(1)
    || status.cursed_inscriptions != stat(3)
    || status.runes != dump.rune_entries.len() as u64
    || status.lost_sats != stat(10)
    || status.sat_index != case.sats
    || status.address_index != case.addresses
  {
    return cx.fail(mismatch("/status", "status", format!("{status:?}"), "table counters"));
  }

  // ---------------------------------------------------------- outputs
  let rune_names: BTreeMap<ordinals::RuneId, &ord::RuneEntry> = dump.rune_entries.iter().map(|(id, e)| (*id, e)).collect();
  let balances: BTreeMap<OutPoint, &Vec<(ordinals::RuneId, u128)>> = dump.rune_balances.iter().map(|(o, l)| (*o, l)).collect();
  let mut interesting: Vec<&(OutPoint, ord::verif::UtxoDump)> = dump
    .utxos
    .iter()
    .filter(|(o, e)| e.inscriptions.as_ref().is_some_and(|i| !i.is_empty()) || balances.contains_key(o))
    .take(8)
    .collect();
  interesting.extend(dump.utxos.iter().take(3));
  let mut posted = Vec::new();
  for (outpoint, entry) in interesting {
    if *outpoint == ord::unbound_outpoint() {
      continue;
    }
    let route = format!("/output/{outpoint}");
    let got = get!(api::Output, route);
    let want_inscriptions: Vec<InscriptionId> = {
      let mut list: Vec<(u32, u64)> = entry.inscriptions.clone().unwrap_or_default();
      list.sort();
      list.iter().map(|(s, _)| id_of(*s)).collect()
    };
    let mut got_inscriptions = got.inscriptions.clone().unwrap_or_default();
    let mut sorted_want = want_inscriptions.clone();
    got_inscriptions.sort();
    sorted_want.sort();
    if got_inscriptions != sorted_want {
      return cx.fail(mismatch(&route, "inscriptions", got.inscriptions, want_inscriptions));
    }
    let want_runes: BTreeMap<String, u128> = balances
      .get(outpoint)
      .map(|l| l.iter().map(|(id, a)| (rune_names[id].spaced_rune.to_string(), *a)).collect())
      .unwrap_or_default();
    let got_runes: BTreeMap<String, u128> = got
      .runes
      .clone()
      .unwrap_or_default()
      .into_iter()
      .map(|(r, p)| (r.to_string(), p.amount))
      .collect();
    if got_runes != want_runes {
      return cx.fail(mismatch(&route, "runes", got_runes, want_runes));
    }
    if case.sats && got.sat_ranges != entry.ranges {
      return cx.fail(mismatch(&route, "sat_ranges", got.sat_ranges, &entry.ranges));
    }
    if *outpoint != OutPoint::null() {
      let (value, script) = &outputs[outpoint];
      // unspendable outputs are not in the node's UTXO set: reported as spent
      let unspendable = crate::model::is_op_return(script);
      if got.value != *value || got.script_pubkey.as_bytes() != script.as_slice() || got.spent != unspendable || !got.indexed {
        return cx.fail(mismatch(&route, "value/script/spent/indexed", (got.value, got.spent, got.indexed), (value, unspendable, true)));
      }
      let route = format!("/r/utxo/{outpoint}");
      let r = get!(api::UtxoRecursive, route);
      let mut ri = r.inscriptions.clone().unwrap_or_default();
      ri.sort();
      let r_runes: BTreeMap<String, u128> = r.runes.clone().unwrap_or_default().into_iter().map(|(k, p)| (k.to_string(), p.amount)).collect();
      if ri != sorted_want || r.value != *value || r_runes != want_runes || (case.sats && r.sat_ranges != entry.ranges) {
        return cx.fail(mismatch(&route, "utxo", (ri.len(), r.value, r_runes), (sorted_want.len(), value, want_runes)));
      }
      posted.push((*outpoint, got));
    }
  }
  if !posted.is_empty() {
    let body = json!(posted.iter().map(|(o, _)| o.to_string()).collect::<Vec<_>>());
    requests += 1;
    let response = server.post_json("/outputs", &body).map_err(harness("post"))?;
    let parsed: Result<Vec<api::Output>, _> = serde_json::from_slice(&response.body);
    match parsed {
      Ok(list) if response.status == 200 => {
        let want: Vec<&api::Output> = posted.iter().map(|(_, o)| o).collect();
        if list.iter().collect::<Vec<_>>() != want {
          return cx.fail(mismatch("/outputs", "outputs", list.len(), want.len()));
        }
      }
      _ => {
        return cx.fail(Fail::new("c18|request-failed", format!("POST /outputs -> {}", response.status)));
      }
    }
  }

  // ---------------------------------------------------------- sats
  let mut paginated = false;
  if case.sats {
    let mut by_sat: BTreeMap<u64, Vec<u32>> = BTreeMap::new();
    for (sat, seq) in &dump.sat_to_sequence_number {
      by_sat.entry(*sat).or_default().push(*seq);
    }
    let mut sats: Vec<(&u64, &Vec<u32>)> = by_sat.iter().collect();
    sats.sort_by_key(|(_, l)| std::cmp::Reverse(l.len()));
    for (sat, seqs) in sats.into_iter().take(4) {
      let ids: Vec<InscriptionId> = seqs.iter().map(|s| id_of(*s)).collect();
      let route = format!("/sat/{sat}");
      let got = get!(api::Sat, route);
      if got.inscriptions != ids || got.number != *sat {
        return cx.fail(mismatch(&route, "inscriptions", got.inscriptions.len(), ids.len()));
      }
      let found = server.index.find(Sat(*sat)).map_err(harness("find"))?;
      if got.satpoint.is_some() && got.satpoint != found {
        return cx.fail(mismatch(&route, "satpoint", got.satpoint, found));
      }
      // the inscription query by sat name gives the first inscription
      let route = format!("/inscription/{}", Sat(*sat).name());
      let first = get!(api::Inscription, route);
      if first.id != ids[0] {
        return cx.fail(mismatch(&route, "id", first.id, ids[0]));
      }
      for p in 0..=(ids.len() / 100) {
        let route = if p == 0 { format!("/r/sat/{sat}") } else { format!("/r/sat/{sat}/{p}") };
        let got = get!(api::SatInscriptions, route);
        let (want, more) = page(&ids, p, 100);
        if got.ids != want || got.more != more || got.page != p as u64 {
          return cx.fail(mismatch(&route, "page", (got.ids.len(), got.more, got.page), (want.len(), more, p)));
        }
        if p > 0 {
          paginated = true;
        }
      }
      let n = ids.len() as isize;
      for index in [0isize, 1, n - 1, n, -1, -2, -n, -n - 1] {
        let route = format!("/r/sat/{sat}/at/{index}");
        let got = get!(api::SatInscription, route);
        let want = if index >= 0 {
          ids.get(index as usize).copied()
        } else {
          (n + index >= 0).then(|| ids[(n + index) as usize])
        };
        if got.id != want {
          return cx.fail(mismatch(&route, "id", got.id, want));
        }
      }
    }
  }

  // ---------------------------------------------------------- runes
  for (id, entry) in dump.rune_entries.iter().take(5) {
    for route in [format!("/rune/{id}"), format!("/rune/{}", entry.spaced_rune), format!("/rune/{}", entry.number)] {
      let got = get!(api::Rune, route);
      let mintable = entry.terms.is_some() && crate::model::runes::mintable(&crate::model::runes::RefRuneEntry {
        block: entry.block,
        burned: entry.burned,
        divisibility: entry.divisibility,
        etching: entry.etching,
        mints: entry.mints,
        number: entry.number,
        premine: entry.premine,
        rune: entry.spaced_rune.rune.0,
        spacers: entry.spaced_rune.spacers,
        symbol: entry.symbol,
        terms: entry.terms,
        timestamp: entry.timestamp,
        turbo: entry.turbo,
      }, u64::from(tip) + 1)
      .is_ok();
      // JSON carries the spaced rune in its printed form, which drops
      // spacers beyond the last letter
      let mut normalised = got.entry;
      if normalised.spaced_rune.to_string() == entry.spaced_rune.to_string() {
        normalised.spaced_rune = entry.spaced_rune;
      }
      if got.id != *id || normalised != *entry || got.mintable != mintable {
        return cx.fail(mismatch(&route, "rune", (got.id, got.mintable, format!("{:?}", got.entry)), (id, mintable, format!("{entry:?}"))));
      }
    }
  }
  if !dump.rune_entries.is_empty() {
    let got = get!(api::Runes, "/runes".to_string());
    let mut want: Vec<(ordinals::RuneId, ord::RuneEntry)> = dump.rune_entries.clone();
    want.sort_by_key(|(_, e)| std::cmp::Reverse(e.number));
    want.truncate(50);
    let got_ids: Vec<ordinals::RuneId> = got.entries.iter().map(|(id, _)| *id).collect();
    let want_ids: Vec<ordinals::RuneId> = want.iter().map(|(id, _)| *id).collect();
    if got_ids != want_ids {
      return cx.fail(mismatch("/runes", "entries", got_ids, want_ids));
    }
  }

  // ---------------------------------------------------------- addresses
  if case.addresses {
    let mut by_script: BTreeMap<Vec<u8>, Vec<OutPoint>> = BTreeMap::new();
    for (script, outpoint) in &dump.script_to_outpoint {
      by_script.entry(script.clone()).or_default().push(*outpoint);
    }
    for (script, outpoints) in by_script.iter().filter(|(s, _)| address_of(s).is_some()).take(3) {
      let address = address_of(script).unwrap();
      let route = format!("/address/{address}");
      let got = get!(api::AddressInfo, route);
      let mut g = got.outputs.clone();
      g.sort();
      let mut w = outpoints.clone();
      w.sort();
      let balance: u64 = outpoints.iter().filter_map(|o| outputs.get(o)).map(|o| o.0).sum();
      if g != w || got.sat_balance != balance {
        return cx.fail(mismatch(&route, "outputs/balance", (g.len(), got.sat_balance), (w.len(), balance)));
      }
    }
  }

  cx.add_extra("http_requests", requests);
  if lost {
    cx.label("lost-inscription");
  }
  if unbound {
    cx.label("unbound-inscription");
  }
  if burned {
    cx.label("burned-inscription");
  }
  if case.bulk_children > 0 && dump.children.len() > 100 {
    cx.label("children-pagination");
  }
  if paginated {
    cx.label("sat-pagination");
  }
  if !dump.rune_entries.is_empty() {
    cx.label("runes");
  }
  if case.addresses {
    cx.label("addresses");
  }
  let kinds = [lost, unbound, burned, paginated || (case.bulk_children > 0 && dump.children.len() > 100)];
  if kinds.iter().filter(|k| **k).count() >= 3 {
    cx.nontrivial(fingerprint(&format!("{case:?}")));
  }
  cx.sample(3, || json!({"blocks": blocks.len(), "inscriptions": dump.entries.len(), "runes": dump.rune_entries.len(), "requests": requests, "sats": case.sats, "addresses": case.addresses}));
  Ok(())
}

fn case_strategy(thorough: bool) -> BoxedStrategy<ExplorerCase> {
  let mut profile = Profile::mixed();
  profile.inscription_heavy = true;
  profile.rune_heavy = true;
  profile.p_envelopes = 0.45;
  profile.p_parents = 0.4;
  profile.prefix = vec![0, 6, 8];
  profile.p_op_return_output = 0.12;
  if thorough {
    profile.blocks = 3..25;
  }
  (
    chain_spec(&profile),
    proptest::bool::weighted(0.75),
    any::<bool>(),
    any::<bool>(),
    prop_oneof![2 => Just(0u8), 1 => 1u8..30],
    prop_oneof![2 => Just(0u8), 1 => 1u8..30],
  )
    .prop_map(|(chain, sats, addresses, transactions, bulk_children, bulk_same_sat)| ExplorerCase {
      chain,
      sats,
      addresses,
      transactions,
      bulk_children,
      bulk_same_sat,
    })
    .boxed()
}

pub fn c18(s: &mut Session) -> Meta {
  let t = s.tier();
  let thorough = t == crate::runner::Tier::Thorough;
  s.run_part(
    Part::new("json-routes", t.pick(120, 3_000), move || case_strategy(thorough), c18_check)
      .shrink_iters(80)
      .timeout(400)
      .workers(8),
  );
  Meta {
    level: "exploration",
    rule: "Mixed-profile chains (inscriptions incl. unbound, lost, burned, parents/children, runes, reused scripts), optionally extended by a block with 101..129 children of one parent and a block with 101..129 inscriptions on one sat (page boundaries), are indexed and served by an in-process `ord server` with Accept: application/json. For sampled objects every route is requested: /inscription/<id|number|sat name>, /inscription/<id>/<child>, /r/inscription, /r/children (+pages, /inscriptions), /r/parents, /inscriptions/block/<h> (+pages), /output, /r/utxo, POST /outputs, /sat, /r/sat (+pages), /r/sat/<n>/at/<0,1,n-1,n,-1,-2,-n,-n-1>, /rune/<id|name|number>, /runes, /r/blockhash[/h], /r/blockheight, /status, /address. Each body is deserialised into ord::api types and compared field by field with the H1 table dump and the generated blocks (pagination recomputed by the harness): number, satpoint, sat, height, fee, charms incl. lost, value and address of the holding output, parents/children/previous/next, per-output inscriptions, rune balances and sat ranges, listings in creation order with `more`, negative indices from the newest. Non-trivial = state with at least three of {lost, unbound, burned, paginated listing}; distinct by case.",
    assumptions: &["the JSON API is compared with the stored tables, not with the Index methods the handlers call"],
    required_labels: &["lost-inscription", "unbound-inscription", "burned-inscription", "children-pagination", "sat-pagination", "runes", "addresses"],
  }
}
