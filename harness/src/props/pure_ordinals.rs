//! C26 varints, C29 sat numbering, C30 sat notations, C32 rune names,
//! C33 unlock schedule. All pure functions of `crates/ordinals`.

use {
  crate::{
    ensure_prop, fail,
    runner::{CheckResult, Cx, Fail, Meta, Part, Session, Tier, fingerprint},
    util::boundary_u128,
  },
  bitcoin::Network,
  ordinals::{Charm, Height, Rarity, Rune, Sat, SpacedRune, varint},
  proptest::prelude::*,
  serde::{Deserialize, Serialize},
  serde_json::json,
  std::sync::atomic::Ordering,
};

// =========================================================== C26 varints

#[derive(Clone, Debug, Serialize, Deserialize)]
pub enum VarintCase {
  Value(String),
  Bytes(Vec<u8>),
}

/// Reference decoder written from the statement: the value of the first
/// terminated group, computed exactly; error if there is no terminated
/// group, the group is longer than 19 bytes or the value needs more than
/// 128 bits.
fn reference_varint(bytes: &[u8]) -> Option<(u128, usize)> {
  let end = bytes.iter().position(|b| b & 0x80 == 0)?;
  let len = end + 1;
  if len > 19 {
    return None;
  }
  // 19 groups of 7 bits = 133 bits: keep high part separately
  let mut lo: u128 = 0;
  for (i, b) in bytes[..len].iter().enumerate() {
    let v = u128::from(b & 0x7f);
    if i < 18 {
      lo |= v << (7 * i);
    } else {
      // i == 18: bits 126..132
      if v > 0b11 {
        return None;
      }
      lo |= v << 126;
    }
  }
  Some((lo, len))
}

pub fn varint_check(case: &VarintCase, cx: &Cx) -> CheckResult {
  match case {
    VarintCase::Value(s) => {
      let n: u128 = s.parse().unwrap();
      let encoded = varint::encode(n);
      let mut v = vec![0xAAu8];
      varint::encode_to_vec(n, &mut v);
      ensure_prop!(
        v[1..] == encoded[..],
        "varint|encode_to_vec",
        "encode_to_vec({n}) differs from encode"
      );
      let expected_len = if n == 0 {
        1
      } else {
        (128 - n.leading_zeros() as usize).div_ceil(7)
      };
      ensure_prop!(
        encoded.len() == expected_len,
        "varint|length",
        "encode({n}) has {} bytes, LEB128 needs {expected_len}",
        encoded.len()
      );
      match varint::decode(&encoded) {
        Ok((m, len)) => {
          ensure_prop!(
            m == n && len == encoded.len(),
            "varint|roundtrip",
            "decode(encode({n})) = ({m}, {len}), encoded {} bytes",
            encoded.len()
          );
        }
        Err(err) => fail!("varint|roundtrip-error", "decode(encode({n})) = Err({err})"),
      }
      cx.label(if encoded.len() >= 2 { "multibyte" } else { "single" });
      if encoded.len() >= 2 {
        cx.nontrivial(fingerprint(&n));
      }
      cx.sample(3, || json!({"value": s, "encoded": hex::encode(&encoded)}));
    }
    VarintCase::Bytes(bytes) => {
      let reference = reference_varint(bytes);
      match (varint::decode(bytes), reference) {
        (Ok((n, len)), Some((m, rlen))) => {
          ensure_prop!(
            n == m && len == rlen,
            "varint|decode-value",
            "decode({}) = ({n}, {len}) but the first terminated group denotes ({m}, {rlen})",
            hex::encode(bytes)
          );
          cx.label("decode-ok");
        }
        (Err(_), None) => cx.label("decode-err"),
        (Ok((n, len)), None) => fail!(
          "varint|accepts-invalid",
          "decode({}) = ({n}, {len}) but the input has no valid first group",
          hex::encode(bytes)
        ),
        (Err(err), Some((m, rlen))) => fail!(
          "varint|rejects-valid",
          "decode({}) = Err({err}) but the first group denotes ({m}, {rlen})",
          hex::encode(bytes)
        ),
      }
      let first = bytes.iter().position(|b| b & 0x80 == 0).map(|p| p + 1);
      if first.unwrap_or(bytes.len()) >= 2 {
        cx.nontrivial(fingerprint(bytes));
        cx.label("bytes-multibyte-group");
      }
      if first.is_none() {
        cx.label("unterminated");
      }
      if matches!(first, Some(19)) {
        cx.label("19-byte-group");
      }
      if matches!(first, Some(n) if n > 19) {
        cx.label("overlong-group");
      }
      cx.sample(6, || json!({"bytes": hex::encode(bytes)}));
    }
  }
  Ok(())
}

fn varint_strategy() -> BoxedStrategy<VarintCase> {
  let group = |len: std::ops::RangeInclusive<usize>| {
    (len, any::<[u8; 24]>(), any::<u8>()).prop_map(|(len, bytes, last)| {
      let mut v: Vec<u8> = bytes[..len - 1].iter().map(|b| b | 0x80).collect();
      v.push(last & 0x7f);
      v
    })
  };
  prop_oneof![
    3 => boundary_u128().prop_map(|n| VarintCase::Value(n.to_string())),
    2 => proptest::collection::vec(any::<u8>(), 0..30).prop_map(VarintCase::Bytes),
    // valid encoding followed by junk
    2 => (boundary_u128(), proptest::collection::vec(any::<u8>(), 0..6)).prop_map(|(n, junk)| {
      let mut v = varint::encode(n);
      v.extend(junk);
      VarintCase::Bytes(v)
    }),
    // non-canonical zero padding: value then 0x80.. 0x00
    2 => (boundary_u128(), 0usize..20).prop_map(|(n, pad)| {
      let mut v = varint::encode(n);
      if pad > 0 {
        *v.last_mut().unwrap() |= 0x80;
        for _ in 0..pad - 1 {
          v.push(0x80);
        }
        v.push(0x00);
      }
      VarintCase::Bytes(v)
    }),
    // groups of 17..=21 bytes with arbitrary final byte (overflow bits)
    3 => (group(17..=21), proptest::collection::vec(any::<u8>(), 0..3)).prop_map(|(mut g, junk)| {
      g.extend(junk);
      VarintCase::Bytes(g)
    }),
    // unterminated
    1 => proptest::collection::vec(any::<u8>(), 0..25)
      .prop_map(|v| VarintCase::Bytes(v.into_iter().map(|b| b | 0x80).collect())),
  ]
  .boxed()
}

pub fn c26(s: &mut Session) -> Meta {
  let cases = s.tier().pick(3_000_000, 20_000_000);
  s.run_part(Part::new("varint", cases, varint_strategy, varint_check));
  Meta {
    level: "exploration",
    rule: "u128 values (boundaries 2^k±2, 10^k±2, uniform per bit length) are encoded and decoded back (value and length); byte strings (random, valid+junk, zero-padded, 17..21-byte groups with arbitrary overflow bits, unterminated) are decoded and compared with a reference decoder (first terminated group, exact 133-bit value). Non-trivial = first group has >= 2 bytes; distinct by value / byte string.",
    assumptions: &[],
    required_labels: &["multibyte", "decode-ok", "decode-err", "19-byte-group", "overlong-group", "unterminated"],
  }
}

// ======================================================== C32 rune names

/// Independent bijective base-26: name of n.
pub fn reference_rune_name(n: u128) -> String {
  // length L = smallest L with n < sum_{k=1..L} 26^k ; computed with u128
  // arithmetic split to avoid overflow at 28 letters.
  let mut letters = Vec::new();
  // work on n+1 in big arithmetic: represent as (hi, lo) where value = n + 1
  // may overflow u128 only when n == MAX. Use the recurrence on n directly:
  // last letter = n % 26, n = n / 26 - 1 (stop when n / 26 == 0).
  let mut n = n;
  loop {
    letters.push(b'A' + (n % 26) as u8);
    if n < 26 {
      break;
    }
    n = n / 26 - 1;
  }
  letters.reverse();
  String::from_utf8(letters).unwrap()
}

/// Independent evaluation of a name: Some(value) iff it fits in u128.
/// value + 1 = sum (digit_i + 1) * 26^(len-1-i), computed on two 64-bit limbs.
pub fn reference_rune_value(name: &str) -> Option<u128> {
  const M: u128 = 1 << 64;
  let mut hi: u128 = 0;
  let mut lo: u128 = 0;
  if name.is_empty() {
    return None;
  }
  for c in name.bytes() {
    if !c.is_ascii_uppercase() {
      return None;
    }
    let d = u128::from(c - b'A') + 1;
    lo = lo * 26 + d;
    hi = hi * 26 + (lo >> 64);
    lo &= M - 1;
    if hi >= (1u128 << 66) {
      return None;
    }
  }
  if lo == 0 {
    hi -= 1;
    lo = M - 1;
  } else {
    lo -= 1;
  }
  if hi >= M {
    return None;
  }
  Some(hi * M + lo)
}

#[derive(Clone, Debug, Serialize, Deserialize)]
pub struct RuneCase {
  pub n: String,
  pub spacers: u32,
}

fn rune_check(case: &RuneCase, cx: &Cx) -> CheckResult {
  let n: u128 = case.n.parse().unwrap();
  let rune = Rune(n);
  let name = rune.to_string();
  let reference = reference_rune_name(n);
  ensure_prop!(
    name == reference,
    "rune|display",
    "Rune({n}) prints `{name}`, bijective base-26 gives `{reference}`"
  );
  ensure_prop!(
    reference_rune_value(&name) == Some(n),
    "rune|reference-self-check",
    "reference evaluation of `{name}` is not {n}"
  );
  match name.parse::<Rune>() {
    Ok(parsed) => ensure_prop!(
      parsed == rune,
      "rune|parse",
      "`{name}` parses to Rune({}) instead of Rune({n})",
      parsed.0
    ),
    Err(err) => fail!("rune|parse-error", "`{name}` (Rune({n})) fails to parse: {err}"),
  }

  // commitment = little-endian bytes without trailing zeros
  let mut expected = n.to_le_bytes().to_vec();
  while expected.last() == Some(&0) {
    expected.pop();
  }
  ensure_prop!(
    rune.commitment() == expected,
    "rune|commitment",
    "commitment of Rune({n}) is {} expected {}",
    hex::encode(rune.commitment()),
    hex::encode(&expected)
  );

  // reserved <=> at or above the first 27-letter name
  let first27 = reference_rune_value(&"A".repeat(27)).unwrap();
  ensure_prop!(
    rune.is_reserved() == (n >= first27),
    "rune|reserved",
    "is_reserved(Rune({n})) = {} but first 27-letter name is {first27}",
    rune.is_reserved()
  );

  // spaced rune print -> parse
  let spaced = SpacedRune::new(rune, case.spacers);
  let printed = spaced.to_string();
  let letters = name.len() as u32;
  let mask = if letters >= 33 {
    u32::MAX
  } else {
    ((1u64 << (letters - 1)) - 1) as u32
  };
  let expected_spacers = case.spacers & mask;
  match printed.parse::<SpacedRune>() {
    Ok(parsed) => ensure_prop!(
      parsed.rune == rune && parsed.spacers == expected_spacers,
      "spaced-rune|roundtrip",
      "SpacedRune({n}, {:#x}) prints `{printed}` which parses to ({}, {:#x}); expected spacers {:#x}",
      case.spacers,
      parsed.rune.0,
      parsed.spacers,
      expected_spacers
    ),
    Err(err) => fail!(
      "spaced-rune|parse-error",
      "SpacedRune({n}, {:#x}) prints `{printed}` which fails to parse: {err}",
      case.spacers
    ),
  }
  // ascii spacer variant
  let ascii = printed.replace('•', ".");
  ensure_prop!(
    ascii.parse::<SpacedRune>().ok() == Some(SpacedRune::new(rune, expected_spacers)),
    "spaced-rune|ascii-spacer",
    "`{ascii}` does not parse to the same spaced rune"
  );
  // the printed form contains exactly popcount(expected) spacers
  ensure_prop!(
    printed.chars().filter(|c| *c == '•').count() as u32 == expected_spacers.count_ones(),
    "spaced-rune|display",
    "`{printed}` has the wrong number of spacers for mask {:#x}",
    expected_spacers
  );

  cx.label(&format!("letters-{:02}", name.len()));
  if case.spacers & !mask != 0 {
    cx.label("spacers-beyond-last-letter");
  }
  if expected_spacers != 0 {
    cx.label("spacers-inside");
  }
  if name.len() >= 2 {
    cx.nontrivial(fingerprint(&(n, case.spacers)));
  }
  cx.sample(4, || json!({"n": case.n, "spacers": case.spacers, "printed": printed}));
  Ok(())
}

fn rune_value_strategy() -> BoxedStrategy<u128> {
  // steps: first name of each length, ±2
  let steps: Vec<u128> = (1..=28)
    .map(|len| reference_rune_value(&"A".repeat(len)).unwrap())
    .collect();
  prop_oneof![
    3 => (0usize..28, -2i32..=2).prop_map(move |(i, d)| {
      let base = steps[i];
      if d >= 0 { base.saturating_add(d as u128) } else { base.saturating_sub((-d) as u128) }
    }),
    3 => boundary_u128(),
    2 => (any::<u128>(), 0u32..128).prop_map(|(n, s)| n >> s),
  ]
  .boxed()
}

pub fn c32(s: &mut Session) -> Meta {
  let cases = s.tier().pick(3_000_000, 20_000_000);
  let strategy = || {
    (
      rune_value_strategy(),
      prop_oneof![
        Just(0u32),
        any::<u32>(),
        (0u32..32).prop_map(|b| 1 << b),
        (any::<u32>(), 0u32..32).prop_map(|(m, s)| m >> s)
      ],
    )
      .prop_map(|(n, spacers)| RuneCase {
        n: n.to_string(),
        spacers,
      })
      .boxed()
  };
  s.run_part(Part::new("rune-names", cases, strategy, rune_check));
  Meta {
    level: "exploration",
    rule: "u128 rune values (first name of every length ±2, 2^k±2, 10^k±2, uniform per bit length, MAX) × spacer masks (0, random, single bits, short masks): Display vs an independent bijective base-26, print→parse identity for Rune and SpacedRune (spacers beyond the last letter dropped), commitment vs LE bytes without trailing zeros, is_reserved vs first 27-letter name. Non-trivial = name has >= 2 letters; distinct by (value, spacers).",
    assumptions: &[],
    required_labels: &["letters-01", "letters-13", "letters-27", "letters-28", "spacers-beyond-last-letter", "spacers-inside"],
  }
}

// ===================================================== C33 unlock schedule

const NETWORKS: [Network; 5] = [
  Network::Bitcoin,
  Network::Testnet,
  Network::Testnet4,
  Network::Signet,
  Network::Regtest,
];

#[derive(Clone, Debug, Serialize, Deserialize)]
pub struct UnlockCase {
  pub network: usize,
  pub n: String,
}

fn unlock_check(case: &UnlockCase, cx: &Cx) -> CheckResult {
  let network = NETWORKS[case.network];
  let n: u128 = case.n.parse().unwrap();
  let rune = Rune(n);
  let min = |h: u32| Rune::minimum_at_height(network, Height(h)).0;
  let reported = rune.unlock_height(network);
  if rune.is_reserved() {
    ensure_prop!(
      reported.is_none(),
      "unlock|reserved",
      "reserved Rune({n}) reports unlock height {reported:?}"
    );
    cx.label("reserved");
    return Ok(());
  }
  let Some(Height(h)) = reported else {
    fail!("unlock|none", "non-reserved Rune({n}) has no unlock height on {network}");
  };
  // least h with minimum_at_height(h) <= n, found independently by binary
  // search over the real (monotone, checked separately) function
  let end = Rune::first_rune_height(network) + 210_000 + 10;
  let (mut lo, mut hi) = (0u32, end);
  ensure_prop!(min(hi) <= n, "unlock|never", "Rune({n}) never unlocks on {network}");
  while lo < hi {
    let mid = lo + (hi - lo) / 2;
    if min(mid) <= n {
      hi = mid;
    } else {
      lo = mid + 1;
    }
  }
  let first = lo;
  // linear confirmation around the answer
  for k in first.saturating_sub(3)..first {
    ensure_prop!(
      min(k) > n,
      "unlock|non-monotone",
      "minimum at {k} on {network} is already <= Rune({n}) but not at a later height"
    );
  }
  ensure_prop!(
    h == first,
    "unlock|height",
    "Rune({n}) `{rune}` on {network}: unlock_height = {h}, first height whose minimum is <= the name = {first} (min({h}) = {}, min({first}) = {})",
    min(h),
    min(first)
  );
  cx.label(&format!("net-{network}"));
  if first > 0 {
    cx.label("unlocks-later");
    cx.nontrivial(fingerprint(&(case.network, n)));
  } else {
    cx.label("unlocked-at-0");
  }
  cx.sample(4, || json!({"network": network.to_string(), "rune": rune.to_string(), "unlock_height": h}));
  Ok(())
}

fn schedule_enumeration(cx: &Cx) -> CheckResult {
  let thirteen = reference_rune_value(&"A".repeat(13)).unwrap();
  for network in NETWORKS {
    let start = Rune::first_rune_height(network);
    let end = start + 210_000 + 1000;
    let mut previous = u128::MAX;
    let mut distinct = 0u64;
    for h in 0..=end {
      let m = Rune::minimum_at_height(network, Height(h)).0;
      cx.stats.evaluations.fetch_add(1, Ordering::Relaxed);
      ensure_prop!(
        m <= previous,
        "schedule|increase",
        "minimum_at_height({network}, {h}) = {m} > minimum at {} = {previous}",
        h.wrapping_sub(1)
      );
      if m != previous {
        distinct += 1;
        cx.nontrivial(fingerprint(&(network.to_string(), h)));
      }
      previous = m;
      if h >= start {
        ensure_prop!(
          m <= thirteen,
          "schedule|thirteen",
          "at height {h} >= first rune height {start} on {network} the minimum {m} is above the first 13-letter name"
        );
      }
      if h >= start + 210_000 {
        ensure_prop!(
          m == 0,
          "schedule|complete",
          "minimum at {h} on {network} is {m}, expected 0 after the schedule"
        );
      }
    }
    // far beyond
    for h in [end + 1, 1_000_000, 10_000_000, u32::MAX - 1, u32::MAX] {
      let m = Rune::minimum_at_height(network, Height(h)).0;
      cx.stats.evaluations.fetch_add(1, Ordering::Relaxed);
      if h >= start + 210_000 {
        ensure_prop!(m == 0, "schedule|complete", "minimum at {h} on {network} is {m}");
      }
    }
    cx.label_n(&format!("heights-{network}"), u64::from(end) + 1);
    cx.label_n("distinct-minimums", distinct);
  }
  cx.sample(1, || json!({"enumeration": "every height 0..=first_rune_height+211000 on 5 networks"}));
  Ok(())
}

pub fn c33(s: &mut Session) -> Meta {
  s.run_enumeration("schedule-heights", schedule_enumeration);
  s.exhaustive = false;
  let cases = s.tier().pick(1_500_000, 10_000_000);
  // names: around every step, and uniform inside each length interval
  let strategy = || {
    let steps: Vec<u128> = (1..=27)
      .map(|len| reference_rune_value(&"A".repeat(len)).unwrap())
      .collect();
    let steps2 = steps.clone();
    let names = prop_oneof![
      2 => (0usize..27, -3i32..=3).prop_map(move |(i, d)| {
        let base = steps[i];
        if d >= 0 { base.saturating_add(d as u128) } else { base.saturating_sub((-d) as u128) }
      }),
      4 => (0usize..13, any::<u128>()).prop_map(move |(i, r)| {
        let lo = steps2[i];
        let hi = steps2[i + 1];
        lo + r % (hi - lo)
      }),
      1 => boundary_u128(),
    ];
    (0usize..5, names)
      .prop_map(|(network, n)| UnlockCase {
        network,
        n: n.to_string(),
      })
      .boxed()
  };
  s.run_part(Part::new("unlock-heights", cases, strategy, unlock_check));
  Meta {
    level: "exploration",
    rule: "Part 1 enumerates every height 0..=first_rune_height+211000 (plus far heights) on mainnet, testnet3, testnet4, signet, regtest: minimum non-increasing, <= first 13-letter name from the first rune block, 0 after the schedule. Part 2 generates names (every length step ±3, uniform inside each 1..13-letter interval, u128 boundaries) × network and compares unlock_height with the least height whose minimum is <= the name (binary search + linear confirmation on the real function). Non-trivial = height at which the minimum changes (part 1), name that unlocks after height 0 (part 2).",
    assumptions: &[],
    required_labels: &["unlocks-later", "unlocked-at-0", "reserved"],
  }
}

// ===================================================== C29 sat numbering

const HALVING: u64 = 210_000;
const LAST_SUBSIDY_HEIGHT: u64 = 33 * HALVING; // first height with zero subsidy

fn ref_subsidy(h: u64) -> u64 {
  let epoch = h / HALVING;
  if epoch < 33 { 5_000_000_000u64 >> epoch } else { 0 }
}

/// Σ subsidies of all blocks below h, from the definition.
fn ref_starting_sat(h: u64) -> u64 {
  let mut total = 0u64;
  let mut epoch = 0u64;
  loop {
    let epoch_start = epoch * HALVING;
    if epoch_start >= h || epoch >= 33 {
      break;
    }
    let blocks = (h - epoch_start).min(HALVING);
    total += blocks * (5_000_000_000u64 >> epoch);
    epoch += 1;
  }
  total
}

fn ref_rarity(h: u64, o: u64) -> Rarity {
  if o != 0 {
    Rarity::Common
  } else if h == 0 {
    Rarity::Mythic
  } else if h % (6 * HALVING) == 0 {
    Rarity::Legendary
  } else if h % HALVING == 0 {
    Rarity::Epic
  } else if h % 2016 == 0 {
    Rarity::Rare
  } else {
    Rarity::Uncommon
  }
}

fn ref_palindrome(n: u64) -> bool {
  let s = n.to_string();
  s.bytes().eq(s.bytes().rev())
}

fn check_sat_at(h: u64, o: u64, cx: &Cx) -> CheckResult {
  let n = ref_starting_sat(h) + o;
  let sat = Sat(n);
  cx.stats.evaluations.fetch_add(1, Ordering::Relaxed);
  let h32 = u32::try_from(h).unwrap();
  ensure_prop!(
    sat.height() == Height(h32),
    "sat|height",
    "Sat({n}) = block {h} offset {o} but height() = {}",
    sat.height()
  );
  ensure_prop!(sat.third() == o, "sat|third", "Sat({n}).third() = {} expected {o}", sat.third());
  ensure_prop!(
    u64::from(sat.epoch().0) == h / HALVING,
    "sat|epoch",
    "Sat({n}).epoch() = {} expected {}",
    sat.epoch().0,
    h / HALVING
  );
  ensure_prop!(
    u64::from(sat.cycle()) == h / (6 * HALVING),
    "sat|cycle",
    "Sat({n}).cycle() = {}",
    sat.cycle()
  );
  ensure_prop!(
    u64::from(sat.period()) == h / 2016,
    "sat|period",
    "Sat({n}).period() = {}",
    sat.period()
  );
  ensure_prop!(
    sat.epoch_position() == n - ref_starting_sat(h / HALVING * HALVING),
    "sat|epoch-position",
    "Sat({n}).epoch_position() = {}",
    sat.epoch_position()
  );
  let degree = sat.degree();
  ensure_prop!(
    u64::from(degree.hour) == h / (6 * HALVING)
      && u64::from(degree.minute) == h % HALVING
      && u64::from(degree.second) == h % 2016
      && degree.third == o,
    "sat|degree",
    "Sat({n}).degree() = {degree} for height {h} offset {o}"
  );
  let decimal = sat.decimal();
  ensure_prop!(
    decimal.height == Height(h32) && decimal.offset == o,
    "sat|decimal",
    "Sat({n}).decimal() = {decimal}"
  );
  let rarity = ref_rarity(h, o);
  ensure_prop!(
    sat.rarity() == rarity,
    "sat|rarity",
    "Sat({n}).rarity() = {} expected {rarity}",
    sat.rarity()
  );
  ensure_prop!(
    sat.common() == (rarity == Rarity::Common),
    "sat|common",
    "Sat({n}).common() = {} but rarity is {rarity}",
    sat.common()
  );
  let mut charms = 0u16;
  if (45_000_000_000..50_000_000_000).contains(&n) {
    Charm::Nineball.set(&mut charms);
  }
  if ref_palindrome(n) {
    Charm::Palindrome.set(&mut charms);
  }
  if n % 100_000_000 == 0 {
    Charm::Coin.set(&mut charms);
  }
  match rarity {
    Rarity::Common => {}
    Rarity::Uncommon => Charm::Uncommon.set(&mut charms),
    Rarity::Rare => Charm::Rare.set(&mut charms),
    Rarity::Epic => Charm::Epic.set(&mut charms),
    Rarity::Legendary => Charm::Legendary.set(&mut charms),
    Rarity::Mythic => Charm::Mythic.set(&mut charms),
  }
  ensure_prop!(
    sat.charms() == charms,
    "sat|charms",
    "Sat({n}).charms() = {:#b} expected {:#b}",
    sat.charms(),
    charms
  );
  Ok(())
}

fn check_height(h: u64, rng_offsets: &[u64], cx: &Cx) -> CheckResult {
  let h32 = u32::try_from(h).unwrap();
  let height = Height(h32);
  ensure_prop!(
    height.subsidy() == ref_subsidy(h),
    "height|subsidy",
    "Height({h}).subsidy() = {} expected {}",
    height.subsidy(),
    ref_subsidy(h)
  );
  ensure_prop!(
    height.starting_sat().0 == ref_starting_sat(h),
    "height|starting-sat",
    "Height({h}).starting_sat() = {} expected {}",
    height.starting_sat().0,
    ref_starting_sat(h)
  );
  ensure_prop!(
    u64::from(height.period_offset()) == h % 2016,
    "height|period-offset",
    "Height({h}).period_offset() = {}",
    height.period_offset()
  );
  cx.stats.evaluations.fetch_add(1, Ordering::Relaxed);
  let subsidy = ref_subsidy(h);
  if subsidy > 0 {
    check_sat_at(h, 0, cx)?;
    check_sat_at(h, subsidy - 1, cx)?;
    for r in rng_offsets {
      check_sat_at(h, r % subsidy, cx)?;
    }
  }
  if h % HALVING == 0 || h % 2016 == 0 || h % (6 * HALVING) == 0 {
    cx.nontrivial(fingerprint(&h));
  }
  Ok(())
}

fn c29_enumeration(cx: &Cx, tier: Tier, seed: u64) -> CheckResult {
  use proptest::test_runner::TestRunner;
  let mut rng = crate::runner::seeded_rng(seed, "C29", "offsets");
  let mut runner = TestRunner::deterministic();
  let _ = &mut runner;
  let mut next = move || -> u64 {
    use proptest::prelude::RngCore;
    rng.next_u64()
  };

  ensure_prop!(
    ref_starting_sat(LAST_SUBSIDY_HEIGHT) == Sat::SUPPLY,
    "supply",
    "Sat::SUPPLY = {} but the subsidies add up to {}",
    Sat::SUPPLY,
    ref_starting_sat(LAST_SUBSIDY_HEIGHT)
  );
  ensure_prop!(Sat::LAST.0 == Sat::SUPPLY - 1, "supply|last", "Sat::LAST");

  let mut counts = [0u64; 6];
  match tier {
    Tier::Thorough => {
      // every subsidy-bearing height and 1000 beyond
      for h in 0..LAST_SUBSIDY_HEIGHT + 1000 {
        let r = [next()];
        check_height(h, &r, cx)?;
        if h < LAST_SUBSIDY_HEIGHT {
          counts[ref_rarity(h, 0) as usize] += 1;
        }
      }
      cx.label_n("heights-exhaustive", LAST_SUBSIDY_HEIGHT + 1000);
    }
    Tier::Quick => {
      // every boundary ±2 and 300k random heights
      let mut n = 0u64;
      for k in 0..=33 {
        for d in -2i64..=2 {
          let h = (k * HALVING) as i64 + d;
          if h >= 0 {
            check_height(h as u64, &[next(), next()], cx)?;
            n += 1;
          }
        }
      }
      for k in 0..=(LAST_SUBSIDY_HEIGHT / 2016) {
        for d in -1i64..=1 {
          let h = (k * 2016) as i64 + d;
          if h >= 0 {
            check_height(h as u64, &[next()], cx)?;
            n += 1;
          }
        }
      }
      for _ in 0..300_000 {
        let h = next() % (LAST_SUBSIDY_HEIGHT + 1000);
        check_height(h, &[next()], cx)?;
        n += 1;
      }
      cx.label_n("heights-sampled", n);
      // counting block starts needs no Sat evaluation: closed form of rarity
      for h in 0..LAST_SUBSIDY_HEIGHT {
        counts[ref_rarity(h, 0) as usize] += 1;
      }
    }
  }
  // rarity supply table vs actual counts
  counts[Rarity::Common as usize] = Sat::SUPPLY - counts[1..].iter().sum::<u64>();
  for rarity in Rarity::ALL {
    ensure_prop!(
      rarity.supply() == counts[rarity as usize],
      "rarity|supply",
      "Rarity::{rarity}.supply() = {} but there are {} such sats",
      rarity.supply(),
      counts[rarity as usize]
    );
  }
  // heights far beyond the last subsidy
  for h in [7_000_000u64, 10_000_000, 100_000_000, u64::from(u32::MAX)] {
    check_height(h, &[], cx)?;
  }
  // random sats anywhere below the supply: inverse direction (sat -> (h, o))
  let samples = match tier {
    Tier::Quick => 300_000,
    Tier::Thorough => 5_000_000,
  };
  for _ in 0..samples {
    let n = next() % Sat::SUPPLY;
    let sat = Sat(n);
    let h = u64::from(sat.height().0);
    let o = sat.third();
    cx.stats.evaluations.fetch_add(1, Ordering::Relaxed);
    ensure_prop!(
      o < ref_subsidy(h) && ref_starting_sat(h) + o == n,
      "sat|inverse",
      "Sat({n}) reports height {h} offset {o}, which is sat {}",
      ref_starting_sat(h) + o
    );
  }
  cx.label_n("random-sats", samples);
  cx.sample(1, || json!({"height": 209_999, "first_sat": ref_starting_sat(209_999), "subsidy": ref_subsidy(209_999)}));
  cx.sample(2, || json!({"height": 6_929_999, "first_sat": ref_starting_sat(6_929_999), "subsidy": ref_subsidy(6_929_999)}));
  Ok(())
}

pub fn c29(s: &mut Session) -> Meta {
  let tier = s.tier();
  let seed = s.args.seed;
  s.run_enumeration("heights-and-sats", |cx| c29_enumeration(cx, tier, seed));
  if tier == Tier::Thorough {
    s.exhaustive = true;
  }
  Meta {
    level: "exploration",
    rule: "Heights: thorough = every height 0..6,931,000 (exhaustive over all subsidy-bearing heights); quick = every halving boundary ±2, every difficulty boundary ±1 and 300,000 random heights. For each height: subsidy, starting sat, period offset vs closed forms (Σ subsidies from the definition), and for its first, last and random sats: height, offset, epoch, cycle, period, epoch position, degree, decimal, rarity, common(), charms. Rarity supply table vs counts over all block starts. Plus random sats below the supply mapped back to (height, offset). Non-trivial = height on an epoch/period/cycle boundary; distinct by height.",
    assumptions: &["Subsidy schedule (50 BTC halving every 210,000 blocks, 33 epochs), 2016-block periods and 6-epoch cycles as in bip.mediawiki"],
    required_labels: &["random-sats"],
  }
}

// ===================================================== C30 sat notations

fn roundtrip_sat(n: u64, cx: &Cx) -> CheckResult {
  let sat = Sat(n);
  cx.stats.evaluations.fetch_add(1, Ordering::Relaxed);
  let forms = [
    ("integer", sat.to_string()),
    ("decimal", sat.decimal().to_string()),
    ("degree", sat.degree().to_string()),
    ("percentile", sat.percentile()),
    ("name", sat.name()),
  ];
  for (kind, text) in forms {
    match text.parse::<Sat>() {
      Ok(parsed) => {
        if parsed != sat {
          let delta = parsed.0 as i128 - n as i128;
          cx.fail(Fail::new(
            format!("roundtrip|{kind}|delta={delta}"),
            format!("Sat({n}) prints {kind} `{text}` which parses to Sat({})", parsed.0),
          ))?;
        }
      }
      Err(err) => cx.fail(Fail::new(
        format!("roundtrip|{kind}|error"),
        format!("Sat({n}) prints {kind} `{text}` which fails to parse: {err}"),
      ))?,
    }
  }
  Ok(())
}

fn c30_enumeration(cx: &Cx, tier: Tier, seed: u64) -> CheckResult {
  use proptest::prelude::RngCore;
  let mut rng = crate::runner::seeded_rng(seed, "C30", "sats");
  let step = match tier {
    Tier::Thorough => 1,
    Tier::Quick => 61,
  };
  let mut h = 0u64;
  let mut heights = 0u64;
  let mut nontrivial = 0u64;
  while h < LAST_SUBSIDY_HEIGHT {
    let start = ref_starting_sat(h);
    let subsidy = ref_subsidy(h);
    roundtrip_sat(start, cx)?;
    roundtrip_sat(start + subsidy - 1, cx)?;
    cx.nontrivial(fingerprint(&(start + subsidy - 1)));
    let r = start + rng.next_u64() % subsidy;
    roundtrip_sat(r, cx)?;
    if r != start {
      cx.nontrivial(fingerprint(&r));
      nontrivial += 1;
    }
    heights += 1;
    h += step;
  }
  // every halving and difficulty boundary regardless of step
  for k in 0..33 {
    for d in [-1i64, 0, 1] {
      let h = (k * HALVING) as i64 + d;
      if h >= 0 && (h as u64) < LAST_SUBSIDY_HEIGHT {
        roundtrip_sat(ref_starting_sat(h as u64), cx)?;
      }
    }
  }
  let random = match tier {
    Tier::Quick => 300_000,
    Tier::Thorough => 8_000_000,
  };
  for _ in 0..random {
    let n = rng.next_u64() % Sat::SUPPLY;
    roundtrip_sat(n, cx)?;
    cx.nontrivial(fingerprint(&n));
  }
  roundtrip_sat(Sat::LAST.0, cx)?;
  roundtrip_sat(0, cx)?;
  cx.label_n("heights-first-last-random", heights);
  cx.label_n("random-sats", random);
  cx.label_n("non-block-start", nontrivial + random);
  for n in [0u64, 2099999997689999, 1_234_567_890_123] {
    let sat = Sat(n);
    cx.sample(3, || json!({"sat": n, "decimal": sat.decimal().to_string(), "degree": sat.degree().to_string(), "percentile": sat.percentile(), "name": sat.name()}));
  }
  Ok(())
}

pub fn c30(s: &mut Session) -> Meta {
  let tier = s.tier();
  let seed = s.args.seed;
  s.run_enumeration("notations", |cx| c30_enumeration(cx, tier, seed));
  if tier == Tier::Thorough {
    s.exhaustive = true;
  }
  Meta {
    level: "exploration",
    rule: "For the first, last and one random sat of every height (thorough: all 6,930,000 subsidy heights, exhaustive over per-height boundary sats; quick: every 61st height plus all halving boundaries ±1) and for uniformly random sats below the supply: integer, decimal, degree, percentile and name notations as printed by ord are parsed back with Sat::from_str and compared. Non-trivial = sat that is not the first sat of its block; distinct by sat number.",
    assumptions: &[],
    required_labels: &["random-sats", "non-block-start"],
  }
}
