//! C03 (inscriptions move with their sat), C04 (never duplicated or
//! dropped), C05 (numbers / sequence numbers / ids), C06 (reinscription and
//! clean-first rules), C07 (provenance).

use {
  crate::{
    chain::{
      ChainSpec, build_chain,
      strategy::{Profile, chain_spec},
    },
    history::{self, Run, statistic},
    model::inscriptions::{Id, RefInscriptions},
    props::sats::{ConfigSpec, ScheduleSpec, config_spec, genesis, schedule_spec},
    runner::{CheckResult, Cx, Fail, Meta, Part, Session, Tier, fingerprint},
  },
  bitcoin::{Block, Network, OutPoint},
  ord::{InscriptionId, ParsedEnvelope, verif::Dump},
  ordinals::{Charm, Sat, SatPoint},
  proptest::prelude::*,
  serde::{Deserialize, Serialize},
  serde_json::json,
  std::collections::{BTreeMap, BTreeSet},
};

#[derive(Clone, Debug, Serialize, Deserialize)]
pub struct InscriptionCase {
  pub testnet4: bool,
  pub chain: ChainSpec,
  pub config: ConfigSpec,
  pub schedule: ScheduleSpec,
  /// index with a first inscription height just above the empty prefix
  /// (hook H4), as on mainnet where inscriptions start at 767430
  #[serde(default)]
  pub late_start: bool,
}

pub struct Obs<'a> {
  pub stop: usize,
  pub network: Network,
  pub blocks: &'a [Block],
  pub model: &'a RefInscriptions,
  pub dump: &'a Dump,
  pub run: &'a Run,
  pub sat_index: bool,
  pub jubilee: u32,
}

fn iid(id: &Id) -> InscriptionId {
  InscriptionId {
    txid: id.0,
    index: id.1,
  }
}

fn harness<E: std::fmt::Display>(what: &str) -> impl Fn(E) -> Fail + '_ {
  move |e| Fail::new("HARNESS-FAULT", format!("{what}: {e:#}"))
}

type Oracle = fn(&Obs, &Cx) -> CheckResult;

fn run_case(case: &InscriptionCase, cx: &Cx, oracle: Oracle, tag: &str) -> Result<(crate::chain::BuildStats, RefInscriptions), Fail> {
  let network = if case.testnet4 {
    Network::Testnet4
  } else {
    Network::Regtest
  };
  let built = build_chain(network, &case.chain);
  let blocks = &built.blocks;
  let mut config = case.config.config();
  config.no_inscriptions = false;
  let mut first_inscription_height = 0;
  if case.late_start && case.chain.prefix > 0 {
    first_inscription_height = u32::from(case.chain.prefix) + 1;
    config.first_inscription_height = Some(first_inscription_height);
    cx.label("first-inscription-height>0");
  }
  let mut run = Run::new(network, &config).map_err(harness("open"))?;
  let mut model = RefInscriptions::new(first_inscription_height);
  model.apply_block(&genesis(network));
  let mut applied = 0usize;
  for (stop, reopen) in case.schedule.stops(blocks.len()) {
    run.set_chain(&blocks[..stop]);
    if let Err(err) = run.update() {
      cx.fail(Fail::new(
        format!("{tag}|update-error"),
        format!("Index::update failed at {stop} blocks: {err:#}"),
      ))?;
      return Ok((built.stats.clone(), model));
    }
    while applied < stop {
      model.apply_block(&blocks[applied]);
      applied += 1;
    }
    let dump = run.dump().map_err(harness("dump"))?;
    let obs = Obs {
      stop,
      network,
      blocks: &blocks[..stop],
      model: &model,
      dump: &dump,
      run: &run,
      sat_index: config.sats,
      jubilee: if case.testnet4 { 0 } else { 110 },
    };
    oracle(&obs, cx)?;
    if reopen {
      run
        .reopen()
        .map_err(|e| Fail::new(format!("{tag}|reopen"), format!("reopen failed: {e:#}")))?;
    }
  }
  Ok((built.stats.clone(), model))
}

fn seq_maps(dump: &Dump) -> (BTreeMap<Id, u32>, BTreeMap<u32, &ord::verif::InscriptionEntry>) {
  let id_to_seq = dump
    .id_to_sequence_number
    .iter()
    .map(|(id, seq)| ((id.txid, id.index), *seq))
    .collect();
  let entries = dump.entries.iter().map(|(seq, e)| (*seq, e)).collect();
  (id_to_seq, entries)
}

// ================================================================= C03

pub fn c03_oracle(obs: &Obs, cx: &Cx) -> CheckResult {
  let stop = obs.stop;
  let (id_to_seq, entries) = seq_maps(obs.dump);
  let satpoints: BTreeMap<u32, SatPoint> = obs.dump.sequence_number_to_satpoint.iter().cloned().collect();
  let locations = obs.model.locations();
  let index = obs.run.index();
  let mut unbound_by_seq: Vec<(u32, u64)> = Vec::new();
  for inscription in &obs.model.list {
    let id = inscription.id;
    let Some(seq) = id_to_seq.get(&id) else {
      return cx.fail(Fail::new(
        "c03|missing",
        format!("after {stop} blocks: inscription {} is not in the index", iid(&id)),
      ));
    };
    let entry = entries[seq];
    let Some(satpoint) = satpoints.get(seq).copied() else {
      return cx.fail(Fail::new(
        "c03|no-satpoint",
        format!("after {stop} blocks: inscription {} has no satpoint", iid(&id)),
      ));
    };
    let api = index
      .get_inscription_satpoint_by_id(iid(&id))
      .map_err(harness("satpoint by id"))?;
    if api != Some(satpoint) {
      return cx.fail(Fail::new(
        "c03|api-satpoint",
        format!("get_inscription_satpoint_by_id({}) = {api:?} but the table says {satpoint}", iid(&id)),
      ));
    }
    let unbound_charm = Charm::Unbound.is_set(entry.charms);
    if inscription.unbound {
      if satpoint.outpoint != ord::unbound_outpoint() || entry.sat.is_some() || !unbound_charm {
        return cx.fail(Fail::new(
          "c03|unbound",
          format!(
            "after {stop} blocks: {} was revealed on a zero-value input or has an unrecognized even field, so it is unbound; the index reports satpoint {satpoint}, sat {:?}, unbound charm {unbound_charm}",
            iid(&id),
            entry.sat
          ),
        ));
      }
      unbound_by_seq.push((*seq, satpoint.offset));
      continue;
    }
    if satpoint.outpoint == ord::unbound_outpoint() || unbound_charm {
      return cx.fail(Fail::new(
        "c03|bound-reported-unbound",
        format!(
          "after {stop} blocks: {} is bound to sat {:?} but the index reports it unbound ({satpoint})",
          iid(&id),
          inscription.sat
        ),
      ));
    }
    let Some((outpoint, offset)) = locations.get(&id).copied() else {
      return Err(Fail::new("HARNESS-FAULT", format!("model lost track of {}", iid(&id))));
    };
    let expected = SatPoint { outpoint, offset };
    if satpoint != expected {
      let kind = if expected.outpoint == OutPoint::null() || satpoint.outpoint == OutPoint::null() {
        "lost"
      } else if satpoint.outpoint == expected.outpoint {
        "offset"
      } else {
        "output"
      };
      return cx.fail(Fail::new(
        format!("c03|location|{kind}"),
        format!(
          "after {stop} blocks: inscription {} sits on sat {:?}, which is at {expected}; the index reports {satpoint}",
          iid(&id),
          inscription.sat
        ),
      ));
    }
    if obs.sat_index {
      if entry.sat.map(|s| s.0) != inscription.sat {
        return cx.fail(Fail::new(
          "c03|sat",
          format!(
            "after {stop} blocks: inscription {} records sat {:?}, first-in-first-out gives {:?}",
            iid(&id),
            entry.sat,
            inscription.sat
          ),
        ));
      }
      let found = index
        .find(Sat(inscription.sat.unwrap()))
        .map_err(harness("find"))?;
      if found != Some(satpoint) {
        return cx.fail(Fail::new(
          "c03|find",
          format!(
            "after {stop} blocks: inscription {} reported at {satpoint} but its sat is found at {found:?}",
            iid(&id)
          ),
        ));
      }
    } else if entry.sat.is_some() {
      return cx.fail(Fail::new("c03|sat-without-index", "sat recorded without sat index".to_string()));
    }
    let burned = Charm::Burned.is_set(entry.charms);
    if burned != inscription.burned {
      return cx.fail(Fail::new(
        "c03|burned",
        format!(
          "after {stop} blocks: inscription {} burned charm = {burned} but its sat {} an OP_RETURN output",
          iid(&id),
          if inscription.burned { "landed in" } else { "never landed in" }
        ),
      ));
    }
  }
  unbound_by_seq.sort();
  for (k, (_, offset)) in unbound_by_seq.iter().enumerate() {
    if *offset != k as u64 {
      return cx.fail(Fail::new(
        "c03|unbound-order",
        format!("after {stop} blocks: unbound inscriptions sit at offsets {unbound_by_seq:?}, expected 0..n in creation order"),
      ));
    }
  }
  Ok(())
}

fn c03_check(case: &InscriptionCase, cx: &Cx) -> CheckResult {
  let (stats, model) = run_case(case, cx, c03_oracle, "c03")?;
  let moved_twice = model.list.iter().any(|i| i.moves >= 2);
  let fee = model.list.iter().any(|i| i.fee_spent_at_reveal)
    || model.locations().values().any(|(o, _)| *o == OutPoint::null());
  let pointer_moved = model.list.iter().any(|i| i.pointer_effective && !i.unbound);
  if moved_twice {
    cx.label("moved-at-least-twice");
  }
  if fee {
    cx.label("through-fee-or-lost");
  }
  if pointer_moved {
    cx.label("pointer-moved");
  }
  if model.list.iter().any(|i| i.unbound) {
    cx.label("unbound");
  }
  if model.list.iter().any(|i| i.burned) {
    cx.label("burned");
  }
  if model.list.iter().any(|i| i.input_value == 0) {
    cx.label("zero-value-input-reveal");
  }
  if !case.config.sats {
    cx.label("without-sat-index");
  }
  if model.list.is_empty() {
    cx.label("no-inscriptions");
  }
  if moved_twice || fee || pointer_moved {
    cx.nontrivial(fingerprint(&format!("{:?}", case.chain)));
  }
  let _ = stats;
  cx.sample(3, || json!({"inscriptions": model.list.len(), "config": format!("{:?}", case.config), "sample": model.list.iter().take(4).map(|i| format!("{}: sat {:?} unbound {} moves {} burned {}", iid(&i.id), i.sat, i.unbound, i.moves, i.burned)).collect::<Vec<_>>() }));
  Ok(())
}

// ================================================================= C04

pub fn c04_oracle(obs: &Obs, cx: &Cx) -> CheckResult {
  let stop = obs.stop;
  let dump = obs.dump;
  let n = dump.entries.len() as u32;
  // sequence numbers 0..n-1, each with exactly one satpoint
  for (k, (seq, _)) in dump.entries.iter().enumerate() {
    if *seq != k as u32 {
      return cx.fail(Fail::new("c04|sequence-gap", format!("after {stop} blocks: entries have sequence numbers {:?}", dump.entries.iter().map(|e| e.0).collect::<Vec<_>>())));
    }
  }
  let satpoint_seqs: Vec<u32> = dump.sequence_number_to_satpoint.iter().map(|(s, _)| *s).collect();
  if satpoint_seqs != (0..n).collect::<Vec<_>>() {
    return cx.fail(Fail::new(
      "c04|satpoint-table",
      format!("after {stop} blocks: {n} inscriptions but satpoints for sequence numbers {satpoint_seqs:?}"),
    ));
  }
  // every output lists exactly the inscriptions located in it
  let mut listed: Vec<(u32, OutPoint, u64)> = Vec::new();
  let values: BTreeMap<OutPoint, u64> = std::iter::once(&genesis(obs.network))
    .chain(obs.blocks.iter())
    .flat_map(|b| b.txdata.iter())
    .flat_map(|tx| {
      let txid = tx.compute_txid();
      tx.output
        .iter()
        .enumerate()
        .map(move |(vout, o)| (OutPoint { txid, vout: vout as u32 }, o.value.to_sat()))
    })
    .collect();
  for (outpoint, entry) in &dump.utxos {
    for (seq, offset) in entry.inscriptions.as_deref().unwrap_or(&[]) {
      listed.push((*seq, *outpoint, *offset));
      let special = *outpoint == OutPoint::null() || *outpoint == ord::unbound_outpoint();
      if !special {
        let value = values.get(outpoint).copied().unwrap_or(0);
        if *offset >= value {
          return cx.fail(Fail::new(
            "c04|offset-beyond-value",
            format!("after {stop} blocks: inscription {seq} at offset {offset} of {outpoint}, whose value is {value}"),
          ));
        }
      }
    }
  }
  listed.sort();
  let mut table: Vec<(u32, OutPoint, u64)> = dump
    .sequence_number_to_satpoint
    .iter()
    .map(|(s, p)| (*s, p.outpoint, p.offset))
    .collect();
  table.sort();
  if listed != table {
    let dup = listed.windows(2).any(|w| w[0].0 == w[1].0);
    let missing = table.iter().find(|t| !listed.contains(t));
    let kind = if dup { "duplicated" } else if missing.is_some() { "dropped" } else { "mismatch" };
    return cx.fail(Fail::new(
      format!("c04|{kind}"),
      format!(
        "after {stop} blocks: inscriptions listed in outputs {:?} differ from the satpoint table {:?}",
        listed.iter().filter(|l| !table.contains(l)).take(3).collect::<Vec<_>>(),
        table.iter().filter(|t| !listed.contains(t)).take(3).collect::<Vec<_>>()
      ),
    ));
  }
  // API view per output
  let index = obs.run.index();
  let mut by_output: BTreeMap<OutPoint, BTreeSet<u32>> = BTreeMap::new();
  for (seq, outpoint, _) in &table {
    by_output.entry(*outpoint).or_default().insert(*seq);
  }
  let (id_to_seq, _) = seq_maps(dump);
  for (outpoint, seqs) in by_output.iter().take(12) {
    let api = index
      .get_inscriptions_for_output(*outpoint)
      .map_err(harness("inscriptions for output"))?
      .unwrap_or_default();
    let api_seqs: BTreeSet<u32> = api
      .iter()
      .filter_map(|id| id_to_seq.get(&(id.txid, id.index)).copied())
      .collect();
    if &api_seqs != seqs || api.len() != seqs.len() {
      return cx.fail(Fail::new(
        "c04|api-output",
        format!("after {stop} blocks: get_inscriptions_for_output({outpoint}) = {api:?} but sequence numbers {seqs:?} are located there"),
      ));
    }
  }
  // count == envelopes found by the parser in non-coinbase transactions
  let mut envelopes = 0u64;
  for block in obs.blocks {
    for tx in block.txdata.iter().skip(1) {
      envelopes += ParsedEnvelope::from_transaction(tx).len() as u64;
    }
  }
  let blessed = statistic(dump, history::STAT_BLESSED);
  let cursed = statistic(dump, history::STAT_CURSED);
  if u64::from(n) != envelopes || blessed + cursed != envelopes {
    return cx.fail(Fail::new(
      "c04|count",
      format!("after {stop} blocks: {envelopes} envelopes in non-coinbase transactions, {n} inscriptions, blessed {blessed} + cursed {cursed}"),
    ));
  }
  let unbound_list = dump
    .utxos
    .iter()
    .find(|(o, _)| *o == ord::unbound_outpoint())
    .map(|(_, e)| e.inscriptions.as_deref().unwrap_or(&[]).len() as u64)
    .unwrap_or(0);
  if statistic(dump, history::STAT_UNBOUND) != unbound_list {
    return cx.fail(Fail::new(
      "c04|unbound-count",
      format!(
        "after {stop} blocks: unbound statistic {} but {unbound_list} inscriptions at the unbound pseudo-output",
        statistic(dump, history::STAT_UNBOUND)
      ),
    ));
  }
  Ok(())
}

fn c04_check(case: &InscriptionCase, cx: &Cx) -> CheckResult {
  let (_, model) = run_case(case, cx, c04_oracle, "c04")?;
  let locations = model.locations();
  let mut per_output: BTreeMap<OutPoint, u32> = BTreeMap::new();
  for (outpoint, _) in locations.values() {
    *per_output.entry(*outpoint).or_default() += 1;
  }
  let multi = per_output.iter().any(|(o, n)| *n >= 2 && *o != OutPoint::null());
  let lost = per_output.get(&OutPoint::null()).copied().unwrap_or(0);
  let unbound = model.list.iter().filter(|i| i.unbound).count();
  if multi {
    cx.label("output-with-two-inscriptions");
  }
  if lost > 0 {
    cx.label("lost-inscription");
  }
  if unbound > 0 {
    cx.label("unbound-inscription");
  }
  let lost_heights: BTreeSet<u32> = model
    .list
    .iter()
    .filter(|i| locations.get(&i.id).is_some_and(|(o, _)| *o == OutPoint::null()))
    .map(|i| i.height)
    .collect();
  let unbound_heights: BTreeSet<u32> = model.list.iter().filter(|i| i.unbound).map(|i| i.height).collect();
  if unbound_heights.len() >= 2 {
    cx.label("unbound-in-two-blocks");
  }
  if lost_heights.len() >= 2 {
    cx.label("lost-in-two-blocks");
  }
  if multi && (lost > 0 || unbound > 0) {
    cx.nontrivial(fingerprint(&format!("{:?}", case.chain)));
  }
  cx.sample(3, || json!({"inscriptions": model.list.len(), "lost": lost, "unbound": unbound, "outputs_with_inscriptions": per_output.len()}));
  Ok(())
}

// ================================================================= C05

fn c05_oracle(obs: &Obs, cx: &Cx) -> CheckResult {
  let stop = obs.stop;
  let dump = obs.dump;
  // ids: exactly (reveal txid, index among the transaction's envelopes)
  let expected_ids: BTreeSet<Id> = obs.model.list.iter().map(|i| i.id).collect();
  let actual_ids: BTreeSet<Id> = dump.entries.iter().map(|(_, e)| (e.id.txid, e.id.index)).collect();
  if expected_ids != actual_ids || dump.entries.len() != expected_ids.len() {
    return cx.fail(Fail::new(
      "c05|ids",
      format!(
        "after {stop} blocks: inscription ids differ from (reveal txid, envelope index): unexpected {:?}, missing {:?}",
        actual_ids.difference(&expected_ids).take(3).map(iid).collect::<Vec<_>>(),
        expected_ids.difference(&actual_ids).take(3).map(iid).collect::<Vec<_>>()
      ),
    ));
  }
  let mut blessed = 0i32;
  let mut cursed = 0i32;
  for (k, (seq, entry)) in dump.entries.iter().enumerate() {
    if *seq != k as u32 || entry.sequence_number != *seq {
      return cx.fail(Fail::new(
        "c05|sequence",
        format!("after {stop} blocks: entry {k} has key {seq} and records sequence number {}", entry.sequence_number),
      ));
    }
    let number = entry.inscription_number;
    if number >= 0 {
      if number != blessed {
        return cx.fail(Fail::new(
          "c05|blessed-number",
          format!("after {stop} blocks: sequence {seq} ({}) has number {number}, expected the next blessed number {blessed}", entry.id),
        ));
      }
      blessed += 1;
    } else {
      if number != -(cursed + 1) {
        return cx.fail(Fail::new(
          "c05|cursed-number",
          format!("after {stop} blocks: sequence {seq} ({}) has number {number}, expected the next cursed number {}", entry.id, -(cursed + 1)),
        ));
      }
      cursed += 1;
    }
    let cursed_charm = Charm::Cursed.is_set(entry.charms);
    if cursed_charm != (number < 0) {
      return cx.fail(Fail::new(
        "c05|cursed-charm",
        format!("after {stop} blocks: {} has number {number} and cursed charm {cursed_charm}", entry.id),
      ));
    }
    if number < 0 && entry.height >= obs.jubilee {
      return cx.fail(Fail::new(
        "c05|negative-after-jubilee",
        format!("after {stop} blocks: {} created at height {} (jubilee {}) has number {number}", entry.id, entry.height, obs.jubilee),
      ));
    }
    let model_height = obs.model.list[obs.model.by_id[&(entry.id.txid, entry.id.index)]].height;
    if entry.height != model_height {
      return cx.fail(Fail::new(
        "c05|height",
        format!("{} records height {} but was revealed at {model_height}", entry.id, entry.height),
      ));
    }
  }
  if statistic(dump, history::STAT_BLESSED) != blessed as u64 || statistic(dump, history::STAT_CURSED) != cursed as u64 {
    return cx.fail(Fail::new("c05|counters", format!("blessed/cursed statistics {} / {} but {blessed} / {cursed} numbers assigned", statistic(dump, history::STAT_BLESSED), statistic(dump, history::STAT_CURSED))));
  }
  // lookups are mutually inverse
  let by_id: Vec<(InscriptionId, u32)> = {
    let mut v: Vec<_> = dump.entries.iter().map(|(s, e)| (e.id, *s)).collect();
    v.sort();
    v
  };
  let mut table = dump.id_to_sequence_number.clone();
  table.sort();
  if by_id != table {
    return cx.fail(Fail::new("c05|id-table", format!("after {stop} blocks: id -> sequence table is not the inverse of the entries")));
  }
  let mut by_number: Vec<(i32, u32)> = dump.entries.iter().map(|(s, e)| (e.inscription_number, *s)).collect();
  by_number.sort();
  let mut table = dump.number_to_sequence_number.clone();
  table.sort();
  if by_number != table {
    return cx.fail(Fail::new("c05|number-table", format!("after {stop} blocks: number -> sequence table is not the inverse of the entries")));
  }
  // per-height running count and per-block listing
  let index = obs.run.index();
  let mut running = 0u32;
  let last: BTreeMap<u32, u32> = dump.height_to_last_sequence_number.iter().cloned().collect();
  for h in 0..=stop as u32 {
    let in_block: Vec<&ord::verif::InscriptionEntry> = dump.entries.iter().map(|(_, e)| e).filter(|e| e.height == h).collect();
    running += in_block.len() as u32;
    // no per-height counter is recorded below the first inscription height
    // (as on mainnet below 767430)
    if h < obs.model.first_inscription_height {
      continue;
    }
    if last.get(&h).copied() != Some(running) {
      return cx.fail(Fail::new(
        "c05|height-counter",
        format!("after {stop} blocks: last sequence number at height {h} is {:?}, running count is {running}", last.get(&h)),
      ));
    }
    if h > 0 {
      let listed = index.get_inscriptions_in_block(h).map_err(harness("inscriptions in block"))?;
      let expected: Vec<InscriptionId> = in_block.iter().map(|e| e.id).collect();
      if listed != expected {
        return cx.fail(Fail::new(
          "c05|block-listing",
          format!("after {stop} blocks: get_inscriptions_in_block({h}) = {listed:?}, entries of that height in sequence order are {expected:?}"),
        ));
      }
    }
    // reveals spent to fees are numbered last in their block
    let (id_to_seq, _) = seq_maps(dump);
    let fee: Vec<u32> = obs.model.list.iter().filter(|i| i.height == h && i.fee_spent_at_reveal).map(|i| id_to_seq[&i.id]).collect();
    let rest: Vec<u32> = obs.model.list.iter().filter(|i| i.height == h && !i.fee_spent_at_reveal && !i.unbound).map(|i| id_to_seq[&i.id]).collect();
    if let (Some(min_fee), Some(max_rest)) = (fee.iter().min(), rest.iter().max())
      && min_fee < max_rest
    {
      return cx.fail(Fail::new(
        "c05|fee-spent-order",
        format!("after {stop} blocks: at height {h} a reveal spent to fees has sequence number {min_fee}, below {max_rest} of a reveal that stayed in an output"),
      ));
    }
  }
  Ok(())
}

fn c05_check(case: &InscriptionCase, cx: &Cx) -> CheckResult {
  let (_, model) = run_case(case, cx, c05_oracle, "c05")?;
  let jubilee = if case.testnet4 { 0 } else { 110 };
  let shapes = |i: &crate::model::inscriptions::RefInscription| {
    i.has_pointer_field || i.pushnum || i.stutter || i.duplicate_field || i.incomplete_field || i.input != 0 || i.envelope_offset != 0
  };
  let cursed_before = model.list.iter().any(|i| i.height < jubilee && shapes(i));
  let cursed_after = model.list.iter().any(|i| i.height >= jubilee && shapes(i));
  let clean = model.list.iter().any(|i| !shapes(i));
  let fee = model.list.iter().any(|i| i.fee_spent_at_reveal);
  cx.label(if case.testnet4 { "testnet4" } else { "regtest" });
  if cursed_before {
    cx.label("cursed-shape-before-jubilee");
  }
  if cursed_after {
    cx.label("cursed-shape-after-jubilee");
  }
  if fee {
    cx.label("fee-spent-reveal");
  }
  if (cursed_before && clean && fee) || (cursed_before && cursed_after) {
    cx.nontrivial(fingerprint(&format!("{:?}", case.chain)));
  }
  cx.sample(3, || json!({"network": if case.testnet4 {"testnet4"} else {"regtest"}, "prefix": case.chain.prefix, "inscriptions": model.list.len()}));
  Ok(())
}

// ================================================================= C06

fn c06_oracle(obs: &Obs, cx: &Cx) -> CheckResult {
  let stop = obs.stop;
  let (id_to_seq, entries) = seq_maps(obs.dump);
  for inscription in &obs.model.list {
    let Some(seq) = id_to_seq.get(&inscription.id) else {
      return cx.fail(Fail::new("c06|missing", format!("{} not indexed", iid(&inscription.id))));
    };
    let entry = entries[seq];
    let reinscription = Charm::Reinscription.is_set(entry.charms);
    let vindicated = Charm::Vindicated.is_set(entry.charms);
    if inscription.unbound {
      continue;
    }
    // (1) sat already carries an inscription => reinscription charm
    if !inscription.sat_occupants_before.is_empty() && !reinscription {
      // ord collects the inscriptions already on the inputs while it walks
      // them, so an effective pointer into a *later* input is its own class
      let later_input = inscription.pointer_effective
        && inscription.target_input.is_some_and(|target| target > inscription.input as usize);
      let how = if later_input {
        "pointer-into-later-input"
      } else if inscription.occupied_by_earlier_tx {
        "earlier-tx"
      } else {
        "same-tx"
      };
      return cx.fail(Fail::new(
        format!("c06|reinscription-not-flagged|{how}"),
        format!(
          "after {stop} blocks: {} was inscribed on sat {:?}, which already carried {:?}, but has no reinscription charm (envelope in input {} at envelope offset {}, input value {}, pointer field {}, pointer effective {}, revealed in block {} tx {})",
          iid(&inscription.id),
          inscription.sat,
          inscription.sat_occupants_before.iter().map(iid).collect::<Vec<_>>(),
          inscription.input,
          inscription.envelope_offset,
          inscription.input_value,
          inscription.has_pointer_field,
          inscription.pointer_effective,
          inscription.height,
          inscription.tx_position
        ),
      ));
    }
    // (2) clean first inscription => blessed, not vindicated, not reinscription
    let clean = inscription.input == 0
      && inscription.envelope_offset == 0
      && !inscription.has_pointer_field
      && !inscription.pushnum
      && !inscription.stutter
      && !inscription.duplicate_field
      && !inscription.incomplete_field
      && !inscription.unrecognized_even_field
      && inscription.sat_occupants_before.is_empty();
    if clean && (entry.inscription_number < 0 || vindicated || reinscription) {
      return cx.fail(Fail::new(
        "c06|clean-first-not-blessed",
        format!(
          "after {stop} blocks: {} is the first envelope of the first input, has no pointer/pushnum/stutter/duplicate/incomplete/unrecognized-even field and its sat {:?} was empty, but it has number {}, vindicated {vindicated}, reinscription {reinscription}",
          iid(&inscription.id),
          inscription.sat,
          entry.inscription_number
        ),
      ));
    }
  }
  Ok(())
}

fn c06_check(case: &InscriptionCase, cx: &Cx) -> CheckResult {
  let (_, model) = run_case(case, cx, c06_oracle, "c06")?;
  let jubilee = if case.testnet4 { 0 } else { 110 };
  let earlier = model.list.iter().any(|i| !i.unbound && i.occupied_by_earlier_tx);
  let same = model.list.iter().any(|i| !i.unbound && !i.sat_occupants_before.is_empty() && !i.occupied_by_earlier_tx);
  let clean = |i: &crate::model::inscriptions::RefInscription| {
    !i.unbound && i.input == 0 && i.envelope_offset == 0 && !i.has_pointer_field && !i.pushnum && !i.stutter && !i.duplicate_field && !i.incomplete_field && i.sat_occupants_before.is_empty()
  };
  let clean_before = model.list.iter().any(|i| clean(i) && i.height < jubilee);
  let clean_after = model.list.iter().any(|i| clean(i) && i.height >= jubilee);
  if earlier {
    cx.label("reinscription-over-earlier-tx");
  }
  if same {
    cx.label("reinscription-within-tx");
  }
  if clean_before {
    cx.label("clean-first-before-jubilee");
  }
  if clean_after {
    cx.label("clean-first-after-jubilee");
  }
  if (earlier && same) || (clean_before && clean_after) {
    cx.nontrivial(fingerprint(&format!("{:?}", case.chain)));
  }
  cx.sample(3, || json!({"inscriptions": model.list.len(), "reinscriptions": model.list.iter().filter(|i| !i.sat_occupants_before.is_empty()).count()}));
  Ok(())
}

// ================================================================= C07

fn c07_oracle(obs: &Obs, cx: &Cx) -> CheckResult {
  let stop = obs.stop;
  let dump = obs.dump;
  let (id_to_seq, entries) = seq_maps(dump);
  let mut children_expected: BTreeSet<(u32, u32)> = BTreeSet::new();
  for inscription in &obs.model.list {
    let Some(seq) = id_to_seq.get(&inscription.id).copied() else {
      return cx.fail(Fail::new("c07|missing", format!("{} not indexed", iid(&inscription.id))));
    };
    let entry = entries[&seq];
    let recorded = &entry.parents;
    // no duplicates
    let unique: BTreeSet<u32> = recorded.iter().copied().collect();
    if unique.len() != recorded.len() {
      return cx.fail(Fail::new(
        "c07|duplicate-parent",
        format!("after {stop} blocks: {} records parents {recorded:?}", iid(&inscription.id)),
      ));
    }
    // expected: named, among those spent or revealed by the reveal
    // transaction, with a lower sequence number; in naming order, once
    let mut expected: Vec<u32> = Vec::new();
    for parent in &inscription.named_parents {
      if !inscription.potential_parents.contains(parent) {
        continue;
      }
      let Some(parent_seq) = id_to_seq.get(parent).copied() else {
        continue;
      };
      if parent_seq < seq && !expected.contains(&parent_seq) {
        expected.push(parent_seq);
      }
    }
    for p in recorded {
      if *p >= seq {
        return cx.fail(Fail::new(
          "c07|parent-not-older",
          format!("after {stop} blocks: {} (sequence {seq}) records parent sequence {p}", iid(&inscription.id)),
        ));
      }
      let pid = entries.get(p).map(|e| (e.id.txid, e.id.index));
      let named = pid.is_some_and(|pid| inscription.named_parents.contains(&pid));
      let present = pid.is_some_and(|pid| inscription.potential_parents.contains(&pid));
      if !named || !present {
        return cx.fail(Fail::new(
          if !named { "c07|forged-unnamed" } else { "c07|forged-not-spent" },
          format!(
            "after {stop} blocks: {} records parent {:?} which was {} by its reveal transaction",
            iid(&inscription.id),
            pid.map(|p| iid(&p)),
            if !named { "not named" } else { "neither spent nor revealed" }
          ),
        ));
      }
    }
    let mut sorted_recorded = recorded.clone();
    sorted_recorded.sort();
    let mut sorted_expected = expected.clone();
    sorted_expected.sort();
    if sorted_recorded != sorted_expected {
      return cx.fail(Fail::new(
        "c07|parent-missing",
        format!(
          "after {stop} blocks: {} names parents that its reveal transaction spent or revealed with lower sequence numbers {expected:?} but records {recorded:?}",
          iid(&inscription.id)
        ),
      ));
    }
    for p in recorded {
      children_expected.insert((*p, seq));
    }
  }
  // children view is the exact inverse
  let children_actual: BTreeSet<(u32, u32)> = dump.children.iter().cloned().collect();
  if children_actual != children_expected || dump.children.len() != children_actual.len() {
    return cx.fail(Fail::new(
      "c07|children-inverse",
      format!(
        "after {stop} blocks: children table {:?} is not the inverse of the recorded parents {:?}",
        children_actual.symmetric_difference(&children_expected).take(4).collect::<Vec<_>>(),
        children_expected.len()
      ),
    ));
  }
  // latest child of every visible collection
  let mut latest: BTreeMap<u32, u32> = BTreeMap::new();
  for (parent, child) in &children_expected {
    if !entries[parent].hidden {
      let e = latest.entry(*parent).or_insert(*child);
      *e = (*e).max(*child);
    }
  }
  let actual_latest: BTreeMap<u32, u32> = dump.collection_to_latest_child.iter().cloned().collect();
  if actual_latest != latest {
    return cx.fail(Fail::new(
      "c07|latest-child",
      format!("after {stop} blocks: collection -> latest child is {actual_latest:?}, most recently created children are {latest:?}"),
    ));
  }
  let reverse: BTreeSet<(u32, u32)> = dump.latest_child_to_collection.iter().cloned().collect();
  let expected_reverse: BTreeSet<(u32, u32)> = latest.iter().map(|(p, c)| (*c, *p)).collect();
  if reverse != expected_reverse {
    return cx.fail(Fail::new(
      "c07|latest-child-reverse",
      format!("after {stop} blocks: latest child -> collection {reverse:?} does not mirror {expected_reverse:?}"),
    ));
  }
  // collections are listed by latest child, newest first
  let (collections, _) = obs
    .run
    .index()
    .get_collections_paginated(1000, 0)
    .map_err(harness("collections"))?;
  let mut order: Vec<(u32, u32)> = latest.iter().map(|(p, c)| (*c, *p)).collect();
  order.sort_by(|a, b| b.0.cmp(&a.0).then(a.1.cmp(&b.1)));
  let expected_collections: Vec<InscriptionId> = order.iter().map(|(_, p)| entries[p].id).collect();
  // within one latest child the multimap order of parents is ascending
  let mut sorted_actual = collections.clone();
  let mut sorted_expected = expected_collections.clone();
  sorted_actual.sort();
  sorted_expected.sort();
  if sorted_actual != sorted_expected {
    return cx.fail(Fail::new(
      "c07|collections-listing",
      format!("after {stop} blocks: collections listed {collections:?}, expected {expected_collections:?}"),
    ));
  }
  let latest_of = |id: &InscriptionId| latest[&id_to_seq[&(id.txid, id.index)]];
  if collections.windows(2).any(|w| latest_of(&w[0]) < latest_of(&w[1])) {
    return cx.fail(Fail::new(
      "c07|collections-order",
      format!("after {stop} blocks: collections are not ordered by latest child: {collections:?}"),
    ));
  }
  Ok(())
}

fn c07_check(case: &InscriptionCase, cx: &Cx) -> CheckResult {
  let (_, model) = run_case(case, cx, c07_oracle, "c07")?;
  let mut accepted = false;
  let mut rejected = false;
  let mut both_in_one_tx = false;
  let mut by_tx: BTreeMap<bitcoin::Txid, (bool, bool)> = BTreeMap::new();
  for i in &model.list {
    for p in &i.named_parents {
      let ok = i.potential_parents.contains(p) && model.by_id.contains_key(p);
      let e = by_tx.entry(i.id.0).or_default();
      if ok {
        accepted = true;
        e.0 = true;
      } else {
        rejected = true;
        e.1 = true;
      }
    }
  }
  if by_tx.values().any(|(a, r)| *a && *r) {
    both_in_one_tx = true;
  }
  if accepted {
    cx.label("parent-in-reveal-transaction");
  }
  if rejected {
    cx.label("forgery-attempt");
  }
  if model.list.iter().any(|i| i.named_parents.iter().any(|p| p.0 == i.id.0)) {
    cx.label("same-transaction-parent");
  }
  if model.list.iter().any(|i| {
    let mut s = BTreeSet::new();
    i.named_parents.iter().any(|p| !s.insert(*p))
  }) {
    cx.label("duplicated-parent-name");
  }
  if both_in_one_tx {
    cx.label("accepted-and-rejected-in-one-tx");
    cx.nontrivial(fingerprint(&format!("{:?}", case.chain)));
  }
  cx.sample(3, || json!({"inscriptions": model.list.len(), "with_named_parents": model.list.iter().filter(|i| !i.named_parents.is_empty()).count()}));
  Ok(())
}

// ------------------------------------------------------------ strategies

fn case_strategy(profile: Profile, cuts: usize, testnet4: f64, sats: Option<bool>) -> BoxedStrategy<InscriptionCase> {
  (
    proptest::bool::weighted(testnet4),
    chain_spec(&profile),
    config_spec(sats, None),
    schedule_spec(cuts),
    proptest::bool::weighted(0.5),
  )
    .prop_map(|(testnet4, chain, config, schedule, late_start)| InscriptionCase {
      testnet4,
      chain,
      config,
      schedule,
      late_start,
    })
    .boxed()
}

fn thorough(mut p: Profile) -> Profile {
  p.blocks = 3..30;
  p.txs = 0..7;
  p
}

pub fn c03(s: &mut Session) -> Meta {
  let t = s.tier();
  let mut profile = Profile::inscriptions();
  profile.p_op_return_output = 0.12;
  let profile = t.pick(profile.clone(), thorough(profile));
  s.run_part(
    Part::new("locations", t.pick(1000, 20_000), move || case_strategy(profile.clone(), 3, 0.2, None), c03_check)
      .shrink_iters(300)
      .timeout(300),
  );
  Meta {
    level: "exploration",
    rule: "Chains from the inscription profile (reveals with 1..4 inputs and 1..4 envelopes per input; pointers inside / at output starts / equal to the output total / beyond / zero-padded / nine bytes; zero-value inputs; unrecognized even tags; later transfers that merge and split inscribed outputs, spend them to fees with multi-output and under-paying coinbases, to OP_RETURN outputs, reveal-and-fee-spend in one transaction) on regtest and testnet4, all flag combinations, 1..4 update calls with reopen. After every update call, for every inscription of RefInscriptions (inscriptions bound to sats that follow RefSats): satpoint table and get_inscription_satpoint_by_id equal the model location of its sat (incl. the lost-sats pseudo-output), with the sat index entry.sat equals the model sat and Index::find(sat) equals the reported satpoint, the burned charm is set iff the sat ever landed in an OP_RETURN output, inscriptions on zero-value inputs or with an unrecognized even field are at the unbound pseudo-output with no sat, at offsets 0..n in creation order. Non-trivial = an inscription changed output at least twice, went through a fee, or was placed by an effective pointer; distinct by chain spec.",
    assumptions: &["envelope extraction (ParsedEnvelope::from_transaction) is trusted here and checked by C27", "duplicate txids are not generated in inscription profiles"],
    required_labels: &["moved-at-least-twice", "through-fee-or-lost", "pointer-moved", "unbound", "burned", "zero-value-input-reveal", "without-sat-index"],
  }
}

pub fn c04(s: &mut Session) -> Meta {
  let t = s.tier();
  let mut profile = Profile::inscriptions();
  profile.max_envelopes = 5;
  profile.p_envelopes = 0.55;
  let profile = t.pick(profile.clone(), thorough(profile));
  let strategy = move || {
    case_strategy(profile.clone(), 4, 0.2, None)
      .prop_map(|mut c| {
        c.config.commit_interval = c.config.commit_interval % 3 + 1;
        c
      })
      .boxed()
  };
  s.run_part(Part::new("audit", t.pick(1000, 20_000), strategy, c04_check).shrink_iters(300).timeout(300));
  Meta {
    level: "exploration",
    rule: "In about one case in eight the index is opened with a first inscription height just above the chain's empty prefix (hook H4, as on mainnet where inscriptions start at 767430; with and without a full UTXO index) and the first generated block, at exactly that height, carries envelopes. C03 generator with more envelopes per input, commit interval 1..3 (so the lost and unbound pseudo-outputs are merged in several commits) and 1..5 update calls with reopen. After every update call the H1 dump is audited: sequence numbers 0..n-1 each have exactly one satpoint; the multiset of (sequence number, offset) stored in output entries (all outputs and both pseudo-outputs) equals the satpoint table; offsets lie below the output's value; get_inscriptions_for_output agrees; n equals the number of envelopes ParsedEnvelope finds in the non-coinbase transactions and equals blessed+cursed; the unbound statistic equals the unbound pseudo-output's list. Non-trivial = state with an output holding >= 2 inscriptions and an inscription on a pseudo-output; distinct by chain spec.",
    assumptions: &["first inscription height is 0 on regtest and testnet4"],
    required_labels: &["output-with-two-inscriptions", "lost-inscription", "unbound-inscription", "unbound-in-two-blocks", "first-inscription-height>0"],
  }
}

pub fn c05(s: &mut Session) -> Meta {
  let t = s.tier();
  let mut profile = Profile::inscriptions();
  profile.prefix = vec![100, 102, 104, 106, 107, 108];
  profile.blocks = 3..10;
  let profile = if t == Tier::Thorough {
    let mut p = profile.clone();
    p.blocks = 3..22;
    p.txs = 0..7;
    p
  } else {
    profile
  };
  let strategy = move || {
    case_strategy(profile.clone(), 2, 0.25, None)
      .prop_map(|mut c| {
        if c.testnet4 {
          c.chain.prefix %= 7;
        }
        c
      })
      .boxed()
  };
  s.run_part(Part::new("numbering", t.pick(700, 12_000), strategy, c05_check).shrink_iters(250).timeout(300));
  Meta {
    level: "exploration",
    rule: "Inscription-profile chains on regtest starting at height 100..108 so that the generated blocks cross the jubilee at 110 (clean, cursed-shape and fee-spent reveals on both sides) and on testnet4 (jubilant from genesis). After every update call: the set of ids equals {(reveal txid, index of the envelope among the transaction's envelopes)} from the model; entries are keyed 0..n-1 and record their own sequence number; non-negative numbers are 0,1,2.. and negative ones -1,-2,.. in sequence order; cursed charm iff number < 0; no negative number at or after the jubilee; id->sequence and number->sequence tables are exact inverses of the entries; the per-height last-sequence table is the running count and get_inscriptions_in_block(h) is exactly that slice; reveals that left their transaction through the fee have the highest sequence numbers of their block. Non-trivial = chain with cursed shapes on both sides of the jubilee, or with a cursed shape, a clean reveal and a fee-spent reveal; distinct by chain spec.",
    assumptions: &["which reveals are cursed is not predicted; only the invariants of the statement are asserted"],
    required_labels: &["regtest", "testnet4", "cursed-shape-before-jubilee", "cursed-shape-after-jubilee", "fee-spent-reveal"],
  }
}

pub fn c06(s: &mut Session) -> Meta {
  let t = s.tier();
  let mut profile = Profile::inscriptions();
  profile.prefix = vec![0, 104, 106, 108];
  profile.blocks = 3..10;
  profile.p_envelopes = 0.6;
  let profile = if t == Tier::Thorough {
    let mut p = profile.clone();
    p.blocks = 3..22;
    p
  } else {
    profile
  };
  let strategy = move || {
    case_strategy(profile.clone(), 2, 0.2, None)
      .prop_map(|mut c| {
        if c.testnet4 {
          c.chain.prefix %= 7;
        }
        c
      })
      .boxed()
  };
  s.run_part(Part::new("reinscription", t.pick(900, 15_000), strategy, c06_check).shrink_iters(250).timeout(300));
  Meta {
    level: "exploration",
    rule: "Envelope-shape grammar over generated chains: every combination of duplicate / incomplete / unknown even / unknown odd / pushnum / stutter / pointer / not-first-input / not-first-envelope on fresh sats and on sats that already carry inscriptions (re-spent inscribed outputs, several envelopes pointing at one sat in one transaction), on both sides of the regtest jubilee and on testnet4. After every update call, using the model's sat occupancy: (1) a bound inscription whose sat already carried a bound inscription (from an earlier transaction or an earlier envelope of the same transaction) must have the reinscription charm; (2) a bound inscription that is the first envelope of the first input without pointer field, pushnum, stutter, duplicate, incomplete or unrecognized even field, on an empty sat, must have a non-negative number and neither the vindicated nor the reinscription charm. Nothing else is asserted. Non-trivial = chain exercising (1) both across transactions and within one, or (2) on both sides of the jubilee; distinct by chain spec.",
    assumptions: &["sat occupancy comes from RefInscriptions (sats, not offsets)"],
    required_labels: &["reinscription-over-earlier-tx", "reinscription-within-tx", "clean-first-before-jubilee", "clean-first-after-jubilee"],
  }
}

pub fn c07(s: &mut Session) -> Meta {
  let t = s.tier();
  let mut profile = Profile::inscriptions();
  profile.p_parents = 0.6;
  profile.p_envelopes = 0.55;
  let profile = t.pick(profile.clone(), thorough(profile));
  s.run_part(
    Part::new("provenance", t.pick(900, 15_000), move || case_strategy(profile.clone(), 2, 0.15, None), c07_check)
      .shrink_iters(250)
      .timeout(300),
  );
  Meta {
    level: "exploration",
    rule: "Inscription-profile chains in which 60% of the envelopes name 1..3 parents: existing inscriptions in the spent inputs, unrelated existing ones, absent ids, envelopes of the same transaction (earlier and later), and repeats of the previous parent in the same or the other (fixed-width) byte encoding; hidden and visible parents. After every update call, with S(tx) = inscriptions whose sat was in an input of the reveal transaction plus the transaction's own envelopes (model): recorded parents are named, in S(tx), strictly older (lower sequence number) and unique; every named parent in S(tx) with a lower sequence number is recorded; the children table is the exact inverse of the recorded parents; for every non-hidden parent collection->latest child is its highest child sequence number, the reverse multimap mirrors it and get_collections_paginated is ordered by it. Non-trivial = a transaction with both an accepted parent and a rejected forgery; distinct by chain spec.",
    assumptions: &["'hidden' is read back from the stored entry (content-derived flag)"],
    required_labels: &["parent-in-reveal-transaction", "forgery-attempt", "same-transaction-parent", "duplicated-parent-name", "accepted-and-rejected-in-one-tx"],
  }
}
