//! C27 inscription envelopes round-trip / parsing total;
//! C28 inscription properties round-trip / bounded decoding.

use {
  crate::runner::{CheckResult, Cx, Fail, Meta, Part, Session, catch, fingerprint, panic_site},
  bitcoin::{
    Amount, OutPoint, ScriptBuf, Sequence, Transaction, TxIn, TxOut, Txid, Witness,
    absolute::LockTime, hashes::Hash, script, transaction::Version,
  },
  ord::{
    Attributes, Chain, Inscription, InscriptionId, Item, ParsedEnvelope, Properties, Trait, Traits,
    verif,
  },
  ordinals::Rune,
  proptest::prelude::*,
  serde::{Deserialize, Serialize},
  serde_json::json,
  std::io::{Read, Write},
};

// ============================================================ C27

#[derive(Clone, Debug, Serialize, Deserialize)]
pub struct InscriptionSpec {
  pub content_type: Option<Vec<u8>>,
  pub content_encoding: Option<Vec<u8>>,
  pub body: Option<Vec<u8>>,
  pub metadata: Option<Vec<u8>>,
  pub metaprotocol: Option<String>,
  pub properties_raw: Option<Vec<u8>>,
  pub property_encoding: Option<Vec<u8>>,
  pub parents: Vec<([u8; 32], u32)>,
  pub delegate: Option<([u8; 32], u32)>,
  pub pointer: Option<u64>,
  pub rune: Option<String>,
}

#[derive(Clone, Debug, Serialize, Deserialize)]
pub struct EnvelopeCase {
  /// per input: inscriptions in its script (empty = input without witness)
  pub inputs: Vec<Vec<InscriptionSpec>>,
  pub key_check_prefix: bool,
  pub annex: bool,
}

fn id(raw: &([u8; 32], u32)) -> InscriptionId {
  InscriptionId {
    txid: Txid::from_byte_array(raw.0),
    index: raw.1,
  }
}

fn build_inscription(spec: &InscriptionSpec) -> Result<Inscription, String> {
  let mut inscription = Inscription::new(
    Chain::Regtest,
    false,
    spec.delegate.as_ref().map(id),
    spec.metadata.clone(),
    spec.metaprotocol.clone(),
    spec.parents.iter().map(id).collect(),
    None,
    spec.pointer,
    Properties::default(),
    spec.rune.as_ref().map(|r| Rune(r.parse().unwrap())),
  )
  .map_err(|e| e.to_string())?;
  inscription.content_type = spec.content_type.clone();
  inscription.content_encoding = spec.content_encoding.clone();
  inscription.body = spec.body.clone();
  inscription.properties = spec.properties_raw.clone();
  inscription.property_encoding = spec.property_encoding.clone();
  Ok(inscription)
}

pub fn witness_for(script: ScriptBuf, annex: bool) -> Witness {
  let mut witness = Witness::new();
  witness.push(script);
  witness.push([0xc0u8; 33]);
  if annex {
    witness.push([0x50u8, 1, 2, 3]);
  }
  witness
}

pub fn tx_with_witnesses(witnesses: Vec<Witness>) -> Transaction {
  Transaction {
    version: Version(2),
    lock_time: LockTime::ZERO,
    input: witnesses
      .into_iter()
      .enumerate()
      .map(|(i, witness)| TxIn {
        previous_output: OutPoint {
          txid: Txid::from_byte_array([7; 32]),
          vout: i as u32,
        },
        script_sig: ScriptBuf::new(),
        sequence: Sequence::MAX,
        witness,
      })
      .collect(),
    output: vec![TxOut {
      value: Amount::from_sat(1),
      script_pubkey: ScriptBuf::new(),
    }],
  }
}

fn envelope_check(case: &EnvelopeCase, cx: &Cx) -> CheckResult {
  let mut witnesses = Vec::new();
  let mut expected: Vec<(u32, u32, Inscription)> = Vec::new();
  for (input, specs) in case.inputs.iter().enumerate() {
    if specs.is_empty() {
      witnesses.push(Witness::new());
      continue;
    }
    let mut builder = script::Builder::new();
    if case.key_check_prefix {
      builder = builder
        .push_slice([2u8; 32])
        .push_opcode(bitcoin::opcodes::all::OP_CHECKSIG);
    }
    for (offset, spec) in specs.iter().enumerate() {
      let inscription = match build_inscription(spec) {
        Ok(i) => i,
        Err(err) => {
          return cx.fail(Fail::new(
            "envelope|constructor-error",
            format!("Inscription::new failed for {spec:?}: {err}"),
          ));
        }
      };
      builder = inscription.append_reveal_script_to_builder(builder);
      expected.push((input as u32, offset as u32, inscription));
    }
    witnesses.push(witness_for(builder.into_script(), case.annex));
  }
  let tx = tx_with_witnesses(witnesses);
  let parsed = ParsedEnvelope::from_transaction(&tx);
  if parsed.len() != expected.len() {
    return cx.fail(Fail::new(
      "envelope|count",
      format!(
        "{} inscriptions written, {} envelopes parsed",
        expected.len(),
        parsed.len()
      ),
    ));
  }
  let mut chunked = false;
  for (envelope, (input, offset, inscription)) in parsed.iter().zip(&expected) {
    let spec = &case.inputs[*input as usize][*offset as usize];
    if envelope.input != *input || envelope.offset != *offset {
      return cx.fail(Fail::new(
        "envelope|index",
        format!(
          "envelope at input {} offset {} parsed as input {} offset {}",
          input, offset, envelope.input, envelope.offset
        ),
      ));
    }
    if envelope.pushnum || envelope.stutter {
      return cx.fail(Fail::new(
        "envelope|pushnum-stutter",
        format!("envelope written by ord parsed with pushnum={} stutter={}", envelope.pushnum, envelope.stutter),
      ));
    }
    let p = &envelope.payload;
    if p.incomplete_field || p.unrecognized_even_field {
      return cx.fail(Fail::new(
        "envelope|flags",
        format!("incomplete={} unrecognized_even={}", p.incomplete_field, p.unrecognized_even_field),
      ));
    }
    let multi = inscription.parents.len() > 1
      || inscription.metadata.as_ref().is_some_and(|m| m.len() > 520)
      || inscription.properties.as_ref().is_some_and(|m| m.len() > 520);
    chunked |= inscription.metadata.as_ref().is_some_and(|m| m.len() > 520)
      || inscription.properties.as_ref().is_some_and(|m| m.len() > 520);
    if p.duplicate_field != multi {
      return cx.fail(Fail::new(
        "envelope|duplicate-flag",
        format!("duplicate_field={} but multi-push field present={multi}", p.duplicate_field),
      ));
    }
    let fields_equal = p.body == inscription.body
      && p.content_encoding == inscription.content_encoding
      && p.content_type == inscription.content_type
      && p.delegate == inscription.delegate
      && p.metadata == inscription.metadata
      && p.metaprotocol == inscription.metaprotocol
      && p.parents == inscription.parents
      && p.pointer == inscription.pointer
      && p.properties == inscription.properties
      && p.property_encoding == inscription.property_encoding
      && p.rune == inscription.rune;
    if !fields_equal {
      return cx.fail(Fail::new(
        "envelope|fields",
        format!("parsed fields differ\n written = {inscription:?}\n parsed  = {p:?}"),
      ));
    }
    // compact encodings
    if p.pointer() != spec.pointer {
      return cx.fail(Fail::new(
        "envelope|pointer",
        format!("pointer {:?} read back as {:?}", spec.pointer, p.pointer()),
      ));
    }
    if p.delegate() != spec.delegate.as_ref().map(id) {
      return cx.fail(Fail::new(
        "envelope|delegate",
        format!("delegate {:?} read back as {:?}", spec.delegate.as_ref().map(id), p.delegate()),
      ));
    }
    let parents: Vec<InscriptionId> = spec.parents.iter().map(id).collect();
    if p.parents() != parents {
      return cx.fail(Fail::new(
        "envelope|parents",
        format!("parents {parents:?} read back as {:?}", p.parents()),
      ));
    }
    if p.rune != spec.rune.as_ref().map(|r| Rune(r.parse().unwrap()).commitment()) {
      return cx.fail(Fail::new("envelope|rune", "rune commitment differs".to_string()));
    }
  }
  let total: usize = expected.len();
  cx.label(&format!("inscriptions-{}", total.min(5)));
  if case.inputs.iter().filter(|i| !i.is_empty()).count() > 1 {
    cx.label("several-inputs");
  }
  if case.inputs.iter().any(|i| i.len() > 1) {
    cx.label("several-per-script");
  }
  if chunked {
    cx.label("chunked-field");
    let others = expected
      .iter()
      .map(|(_, _, i)| {
        [
          i.content_type.is_some(),
          i.body.is_some(),
          i.delegate.is_some(),
          i.pointer.is_some(),
          !i.parents.is_empty(),
          i.metaprotocol.is_some(),
          i.rune.is_some(),
          i.content_encoding.is_some(),
        ]
        .iter()
        .filter(|b| **b)
        .count()
      })
      .max()
      .unwrap_or(0);
    if others >= 2 {
      cx.nontrivial(fingerprint(&format!("{case:?}")));
    }
  }
  cx.sample(2, || json!({"case": format!("{:?}", case).chars().take(600).collect::<String>()}));
  Ok(())
}

fn nonempty_bytes(max: usize) -> BoxedStrategy<Vec<u8>> {
  prop_oneof![
    4 => proptest::collection::vec(any::<u8>(), 1..24),
    1 => proptest::collection::vec(any::<u8>(), 1..max),
    1 => (1usize..max, any::<u8>()).prop_map(|(n, b)| vec![b; n]),
    1 => (0u8..=16).prop_map(|b| vec![b]),
    1 => Just(vec![0x81]),
  ]
  .boxed()
}

fn raw_id() -> BoxedStrategy<([u8; 32], u32)> {
  (
    any::<[u8; 32]>(),
    prop_oneof![
      Just(0u32),
      Just(255),
      Just(256),
      Just(65535),
      Just(65536),
      Just(1 << 24),
      Just(u32::MAX),
      any::<u32>(),
      0u32..10
    ],
  )
    .boxed()
}

fn inscription_spec() -> BoxedStrategy<InscriptionSpec> {
  (
    (
      proptest::option::of(nonempty_bytes(100)),
      proptest::option::of(nonempty_bytes(40)),
      proptest::option::of(prop_oneof![
        3 => proptest::collection::vec(any::<u8>(), 0..40),
        1 => proptest::collection::vec(any::<u8>(), 500..1100),
        1 => (0usize..5000).prop_map(|n| vec![0xab; n]),
        1 => Just(vec![0u8; 520]),
        1 => Just(vec![1u8; 521]),
      ]),
      proptest::option::of(prop_oneof![3 => nonempty_bytes(1600), 1 => (519usize..523).prop_map(|n| vec![9u8; n]), 1 => (1039usize..1042).prop_map(|n| vec![9u8; n])]),
      proptest::option::of("[ -~]{1,30}"),
    ),
    (
      proptest::option::of(prop_oneof![3 => nonempty_bytes(1600), 1 => (519usize..523).prop_map(|n| vec![7u8; n])]),
      proptest::option::of(nonempty_bytes(12)),
      proptest::collection::vec(raw_id(), 0..4),
      proptest::option::of(raw_id()),
      proptest::option::of(prop_oneof![
        Just(0u64),
        Just(1),
        Just(255),
        Just(256),
        Just(u64::MAX),
        crate::util::boundary_u64()
      ]),
      proptest::option::of(crate::util::boundary_u128().prop_map(|n| n.to_string())),
    ),
  )
    .prop_map(
      |(
        (content_type, content_encoding, body, metadata, metaprotocol),
        (properties_raw, property_encoding, parents, delegate, pointer, rune),
      )| InscriptionSpec {
        content_type,
        content_encoding,
        body,
        metadata,
        metaprotocol,
        properties_raw,
        property_encoding,
        parents,
        delegate,
        pointer,
        rune,
      },
    )
    .boxed()
}

fn envelope_strategy() -> BoxedStrategy<EnvelopeCase> {
  (
    proptest::collection::vec(
      prop_oneof![
        1 => Just(Vec::new()),
        4 => proptest::collection::vec(inscription_spec(), 1..2),
        2 => proptest::collection::vec(inscription_spec(), 2..5),
      ],
      1..4,
    ),
    any::<bool>(),
    any::<bool>(),
  )
    .prop_map(|(inputs, key_check_prefix, annex)| EnvelopeCase {
      inputs,
      key_check_prefix,
      annex,
    })
    .boxed()
}

// --- totality on arbitrary witnesses

#[derive(Clone, Debug, Serialize, Deserialize)]
pub struct WitnessCase {
  pub witnesses: Vec<Vec<Vec<u8>>>,
}

pub fn witness_check(case: &WitnessCase, cx: &Cx) -> CheckResult {
  let witnesses = case
    .witnesses
    .iter()
    .map(|items| {
      let mut w = Witness::new();
      for item in items {
        w.push(item);
      }
      w
    })
    .collect();
  let tx = tx_with_witnesses(witnesses);
  match catch(|| {
    let envelopes = ParsedEnvelope::from_transaction(&tx);
    // exercise the accessors that interpret the raw bytes
    for e in &envelopes {
      let p = &e.payload;
      let _ = (
        p.pointer(),
        p.delegate(),
        p.parents(),
        p.metadata(),
        p.metaprotocol(),
        p.content_type(),
        p.content_encoding(),
        p.media(),
        p.hidden(),
        p.content_length(),
      );
      let _ = verif::inscription_properties(p);
    }
    envelopes
  }) {
    Err(record) => cx.fail(Fail::new(
      format!("witness|panic|{}", panic_site(&record)),
      format!(
        "parsing witness panics at {}: {}; witnesses {:?}",
        record.location,
        record.message,
        case
          .witnesses
          .iter()
          .map(|w| w.iter().map(hex::encode).collect::<Vec<_>>())
          .collect::<Vec<_>>()
      ),
    )),
    Ok(envelopes) => {
      // offsets are consecutive per input
      let mut next: std::collections::BTreeMap<u32, u32> = Default::default();
      for e in &envelopes {
        let n = next.entry(e.input).or_default();
        if e.offset != *n {
          return cx.fail(Fail::new(
            "witness|offsets",
            format!("envelope offsets of input {} are not consecutive", e.input),
          ));
        }
        *n += 1;
      }
      if envelopes.is_empty() {
        cx.label("no-envelope");
      } else {
        cx.label("parsed-envelope");
        cx.nontrivial(fingerprint(&case.witnesses));
        if envelopes.iter().any(|e| e.pushnum) {
          cx.label("pushnum");
        }
        if envelopes.iter().any(|e| e.stutter) {
          cx.label("stutter");
        }
        if envelopes.iter().any(|e| e.payload.incomplete_field) {
          cx.label("incomplete");
        }
        if envelopes.iter().any(|e| e.payload.unrecognized_even_field) {
          cx.label("unrecognized-even");
        }
        if envelopes.iter().any(|e| e.payload.duplicate_field) {
          cx.label("duplicate");
        }
      }
      cx.sample(3, || json!({"witnesses": case.witnesses.iter().map(|w| w.iter().map(hex::encode).collect::<Vec<_>>()).collect::<Vec<_>>(), "envelopes": envelopes.len()}));
      Ok(())
    }
  }
}

/// Script fragments from which envelope-like scripts are assembled.
pub fn script_soup() -> BoxedStrategy<Vec<u8>> {
  let fragment = prop_oneof![
    6 => Just(vec![0x00, 0x63, 0x03, b'o', b'r', b'd']), // OP_FALSE OP_IF "ord"
    6 => Just(vec![0x68]),                              // OP_ENDIF
    3 => Just(vec![0x00]),
    2 => Just(vec![0x63]),
    2 => Just(vec![0x03, b'o', b'r', b'd']),
    4 => (prop_oneof![0u8..20, Just(66), Just(255)], proptest::collection::vec(any::<u8>(), 0..40)).prop_map(|(tag, value)| {
      let mut v = vec![0x01, tag];
      v.push(value.len() as u8);
      v.extend(value);
      v
    }),
    2 => (0x51u8..=0x60).prop_map(|op| vec![op]),
    1 => Just(vec![0x4f]),
    1 => proptest::collection::vec(any::<u8>(), 0..80).prop_map(|data| {
      let mut v = vec![0x4c, data.len() as u8];
      v.extend(data);
      v
    }),
    1 => (any::<u16>(), any::<u8>()).prop_map(|(n, b)| {
      let n = n % 700;
      let mut v = vec![0x4d];
      v.extend(n.to_le_bytes());
      v.extend(std::iter::repeat_n(b, usize::from(n)));
      v
    }),
    1 => Just(vec![0x4d, 0xff]),       // truncated pushdata2
    1 => Just(vec![0x4e, 1, 0, 0]),    // truncated pushdata4
    1 => Just(vec![0x05, 1, 2]),       // truncated direct push
    1 => Just(vec![0xac]),             // OP_CHECKSIG
    1 => proptest::collection::vec(any::<u8>(), 1..6),
  ];
  proptest::collection::vec(fragment, 0..14)
    .prop_map(|fragments| fragments.into_iter().flatten().collect())
    .boxed()
}

fn witness_strategy() -> BoxedStrategy<WitnessCase> {
  let item = prop_oneof![
    5 => script_soup(),
    1 => proptest::collection::vec(any::<u8>(), 0..40),
    1 => Just(vec![0x50, 0x00]),
    1 => Just(vec![0xc0; 33]),
    1 => Just(Vec::new()),
  ];
  let witness = prop_oneof![
    4 => (script_soup(), any::<bool>()).prop_map(|(script, annex)| {
      let mut w = vec![script, vec![0xc0; 33]];
      if annex {
        w.push(vec![0x50]);
      }
      w
    }),
    2 => proptest::collection::vec(item, 0..5),
  ];
  proptest::collection::vec(witness, 0..4)
    .prop_map(|witnesses| WitnessCase { witnesses })
    .boxed()
}

pub fn c27(s: &mut Session) -> Meta {
  let t = s.tier();
  s.run_part(Part::new(
    "roundtrip",
    t.pick(200_000, 1_000_000),
    envelope_strategy,
    envelope_check,
  ));
  s.run_part(Part::new(
    "totality",
    t.pick(800_000, 4_000_000),
    witness_strategy,
    witness_check,
  ));
  Meta {
    level: "exploration",
    rule: "Part roundtrip: 1..3 inputs, each with 0..4 inscriptions built through Inscription::new plus the public fields (content type/encoding, body 0..5000 bytes incl. 520/521, metadata and properties 1..1600 bytes incl. 519..522 and 1039..1041, metaprotocol, 0..3 parents and delegate with index at every byte-length boundary, pointer of any u64, rune commitment; all values non-empty) appended to one reveal script per input (optional key-check prefix, optional annex); ParsedEnvelope::from_transaction must return the same fields in order with input/offset indices, no incomplete/unrecognised/pushnum/stutter flags, duplicate_field exactly when a field needed several pushes, and pointer()/delegate()/parents() must return the original values. Part totality: arbitrary witness stacks assembled from envelope fragments, truncated pushes, pushnum opcodes and random bytes; parsing and every accessor must not panic and offsets per input must be consecutive. Non-trivial = roundtrip case with a chunked field and >= 2 other fields, or a witness in which an envelope was parsed; distinct by case.",
    assumptions: &[],
    required_labels: &["several-inputs", "several-per-script", "chunked-field", "parsed-envelope", "no-envelope", "pushnum", "stutter", "incomplete", "unrecognized-even", "duplicate"],
  }
}

// ============================================================ C28

#[derive(Clone, Debug, Serialize, Deserialize)]
pub enum TraitSpec {
  Bool(bool),
  Integer(i64),
  Null,
  String(String),
}

#[derive(Clone, Debug, Serialize, Deserialize)]
pub struct AttributesSpec {
  pub title: Option<String>,
  pub traits: Vec<(String, TraitSpec)>,
}

#[derive(Clone, Debug, Serialize, Deserialize)]
pub struct PropertiesCase {
  pub gallery: Vec<(([u8; 32], u32), AttributesSpec)>,
  pub attributes: AttributesSpec,
  pub compress: bool,
}

fn attributes(spec: &AttributesSpec) -> Attributes {
  let mut seen = std::collections::HashSet::new();
  Attributes {
    title: spec.title.clone(),
    traits: Traits {
      items: spec
        .traits
        .iter()
        .filter(|(name, _)| seen.insert(name.clone()))
        .map(|(name, value)| {
          (
            name.clone(),
            match value {
              TraitSpec::Bool(b) => Trait::Bool(*b),
              TraitSpec::Integer(i) => Trait::Integer(*i),
              TraitSpec::Null => Trait::Null,
              TraitSpec::String(s) => Trait::String(s.clone()),
            },
          )
        })
        .collect(),
    },
  }
}

fn properties_of(case: &PropertiesCase) -> Properties {
  Properties {
    gallery: case
      .gallery
      .iter()
      .map(|(raw, a)| Item {
        id: Some(id(raw)),
        attributes: attributes(a),
        index: None,
      })
      .collect(),
    attributes: attributes(&case.attributes),
    txids: Vec::new(),
  }
}

fn properties_check(case: &PropertiesCase, cx: &Cx) -> CheckResult {
  let properties = properties_of(case);
  let is_default = properties == Properties::default();

  let inline = verif::properties_to_inline_cbor(&properties);
  let packed = verif::properties_to_packed_cbor(&properties);
  if is_default {
    if inline.is_some() || packed.is_some() {
      return cx.fail(Fail::new("properties|default-encoded", "default properties are encoded".to_string()));
    }
    cx.label("default");
    return Ok(());
  }
  for (name, cbor) in [("inline", &inline), ("packed", &packed)] {
    let Some(cbor) = cbor else {
      return cx.fail(Fail::new(
        format!("properties|{name}-none"),
        format!("{name} encoding of non-default properties is None"),
      ));
    };
    let decoded = verif::properties_from_cbor(cbor);
    if decoded != properties {
      return cx.fail(Fail::new(
        format!("properties|{name}-roundtrip"),
        format!("{name} round trip differs\n original = {properties:?}\n decoded  = {decoded:?}\n cbor = {}", hex::encode(cbor)),
      ));
    }
  }

  // through the inscription constructor (chooses the smallest of inline,
  // packed and — with compress — their brotli forms)
  let inscription = Inscription::new(
    Chain::Regtest,
    case.compress,
    None,
    None,
    None,
    Vec::new(),
    None,
    None,
    properties.clone(),
    None,
  );
  match inscription {
    Err(err) => {
      // the constructor may refuse over-compressible properties: allowed
      let text = err.to_string();
      if !(text.contains("compression over") || text.contains("byte limit")) {
        return cx.fail(Fail::new(
          "properties|constructor-error",
          format!("Inscription::new failed: {text}"),
        ));
      }
      cx.label("constructor-refused-ratio");
    }
    Ok(inscription) => {
      let decoded = verif::inscription_properties(&inscription);
      if decoded != properties {
        return cx.fail(Fail::new(
          "properties|inscription-roundtrip",
          format!(
            "properties written by Inscription::new (encoding {:?}) read back differently\n original = {properties:?}\n decoded  = {decoded:?}",
            inscription.property_encoding.as_ref().map(|e| String::from_utf8_lossy(e).to_string())
          ),
        ));
      }
      // and through a reveal script
      let script = inscription
        .append_reveal_script_to_builder(script::Builder::new())
        .into_script();
      let tx = tx_with_witnesses(vec![witness_for(script, false)]);
      let parsed = ParsedEnvelope::from_transaction(&tx);
      if parsed.len() != 1 || verif::inscription_properties(&parsed[0].payload) != properties {
        return cx.fail(Fail::new(
          "properties|script-roundtrip",
          "properties differ after a reveal script round trip".to_string(),
        ));
      }
      if inscription.property_encoding.is_some() {
        cx.label("brotli-chosen");
      } else {
        cx.label("uncompressed-chosen");
      }
    }
  }

  cx.label(&format!("items-{}", case.gallery.len().min(3)));
  let has_trait = !case.attributes.traits.is_empty() || case.gallery.iter().any(|(_, a)| !a.traits.is_empty());
  if case.gallery.len() >= 2 && has_trait {
    cx.nontrivial(fingerprint(&format!("{case:?}")));
    cx.label("two-items-and-trait");
  }
  if case.gallery.iter().any(|((_, index), _)| *index > 0) {
    cx.label("nonzero-index");
  }
  cx.sample(2, || json!({"properties": format!("{properties:?}").chars().take(500).collect::<String>()}));
  Ok(())
}

fn attributes_spec() -> BoxedStrategy<AttributesSpec> {
  let value = prop_oneof![
    any::<bool>().prop_map(TraitSpec::Bool),
    prop_oneof![any::<i64>(), -30i64..30, Just(i64::MIN), Just(i64::MAX)].prop_map(TraitSpec::Integer),
    Just(TraitSpec::Null),
    "\\PC{0,12}".prop_map(TraitSpec::String),
  ];
  (
    proptest::option::of(prop_oneof![3 => "\\PC{0,20}", 1 => "[a-c]{100,400}"]),
    proptest::collection::vec(("[a-z]{1,6}", value), 0..5),
  )
    .prop_map(|(title, traits)| AttributesSpec { title, traits })
    .boxed()
}

fn properties_strategy() -> BoxedStrategy<PropertiesCase> {
  (
    prop_oneof![
      3 => proptest::collection::vec((raw_id(), attributes_spec()), 0..4),
      1 => proptest::collection::vec((raw_id(), attributes_spec()), 4..40),
      // shared txids (packed form shines)
      1 => (any::<[u8; 32]>(), proptest::collection::vec((0u32..5, attributes_spec()), 2..30))
        .prop_map(|(txid, items)| items.into_iter().map(|(i, a)| ((txid, i), a)).collect()),
    ],
    attributes_spec(),
    any::<bool>(),
  )
    .prop_map(|(gallery, attributes, compress)| PropertiesCase {
      gallery,
      attributes,
      compress,
    })
    .boxed()
}

// --- arbitrary bytes and decompression bounds

#[derive(Clone, Debug, Serialize, Deserialize)]
pub enum BoundCase {
  Raw {
    properties: Vec<u8>,
    encoding: Option<Vec<u8>>,
  },
  /// valid properties whose title is `random` followed by `fill` repeated
  /// `repeat` times, brotli-compressed by the harness
  Bomb {
    random: Vec<u8>,
    repeat: u32,
    quality: u8,
  },
  /// like Bomb with 140,000 pseudo-random bytes derived from `seed`, so that
  /// the compressed field is large enough for the absolute size limit to be
  /// the binding one
  SizeBomb { seed: u64, repeat: u32 },
}

fn pseudo_random(seed: u64, n: usize) -> Vec<u8> {
  let mut state = seed;
  let mut out = Vec::with_capacity(n + 8);
  while out.len() < n {
    state = state.wrapping_add(0x9E3779B97F4A7C15);
    let mut z = state;
    z = (z ^ (z >> 30)).wrapping_mul(0xBF58476D1CE4E5B9);
    z = (z ^ (z >> 27)).wrapping_mul(0x94D049BB133111EB);
    z ^= z >> 31;
    out.extend(z.to_le_bytes());
  }
  out.truncate(n);
  out
}

fn brotli_compress(data: &[u8], quality: u8) -> Vec<u8> {
  let mut out = Vec::new();
  {
    let mut w = brotli::CompressorWriter::new(&mut out, 4096, u32::from(quality), 22);
    w.write_all(data).unwrap();
  }
  out
}

fn brotli_decompress(data: &[u8], limit: usize) -> Option<Vec<u8>> {
  let mut d = brotli::Decompressor::new(data, 4096);
  let mut out = Vec::new();
  let mut buffer = vec![0u8; 65536];
  loop {
    match d.read(&mut buffer) {
      Ok(0) => return Some(out),
      Ok(n) => {
        out.extend_from_slice(&buffer[..n]);
        if out.len() > limit {
          return Some(out);
        }
      }
      Err(_) => return None,
    }
  }
}

const MAX_SIZE: usize = 4_000_000;
const MAX_RATIO: usize = 30;

fn bound_check(case: &BoundCase, cx: &Cx) -> CheckResult {
  let (properties, encoding) = match case {
    BoundCase::Raw {
      properties,
      encoding,
    } => (properties.clone(), encoding.clone()),
    BoundCase::Bomb {
      random,
      repeat,
      quality,
    } => {
      let mut title = hex::encode(random);
      title.extend(std::iter::repeat_n('a', *repeat as usize));
      let p = Properties {
        gallery: Vec::new(),
        attributes: Attributes {
          title: Some(title),
          traits: Traits::default(),
        },
        txids: Vec::new(),
      };
      let cbor = verif::properties_to_inline_cbor(&p).unwrap();
      (brotli_compress(&cbor, *quality), Some(b"br".to_vec()))
    }
    BoundCase::SizeBomb { seed, repeat } => {
      let mut title = hex::encode(pseudo_random(*seed, 140_000));
      title.extend(std::iter::repeat_n('a', *repeat as usize));
      let p = Properties {
        gallery: Vec::new(),
        attributes: Attributes {
          title: Some(title),
          traits: Traits::default(),
        },
        txids: Vec::new(),
      };
      let cbor = verif::properties_to_inline_cbor(&p).unwrap();
      (brotli_compress(&cbor, 1), Some(b"br".to_vec()))
    }
  };
  let inscription = Inscription {
    properties: Some(properties.clone()),
    property_encoding: encoding.clone(),
    ..Default::default()
  };
  let got = match catch(|| verif::inscription_properties(&inscription)) {
    Ok(got) => got,
    Err(record) => {
      return cx.fail(Fail::new(
        format!("properties|panic|{}", panic_site(&record)),
        format!(
          "decoding properties {} (encoding {:?}) panics at {}: {}",
          hex::encode(&properties[..properties.len().min(200)]),
          encoding.as_ref().map(hex::encode),
          record.location,
          record.message
        ),
      ));
    }
  };
  let expected = match &encoding {
    None => {
      cx.label("uncompressed-bytes");
      verif::properties_from_cbor(&properties)
    }
    Some(e) if e != b"br" => {
      cx.label("unknown-encoding");
      Properties::default()
    }
    Some(_) => {
      let limit = properties.len().saturating_mul(MAX_RATIO).min(MAX_SIZE);
      match brotli_decompress(&properties, limit) {
        None => {
          cx.label("invalid-brotli");
          Properties::default()
        }
        Some(data) => {
          let d = data.len();
          let near = d * 10 >= limit * 9 && d * 10 <= limit * 11;
          if near {
            cx.label("within-10pct-of-limit");
            cx.nontrivial(fingerprint(&properties));
          }
          if d > limit {
            cx.label(if limit == MAX_SIZE { "refused-size" } else { "refused-ratio" });
            Properties::default()
          } else {
            cx.label("expanded-within-limits");
            verif::properties_from_cbor(&data)
          }
        }
      }
    }
  };
  if got != expected {
    let class = if expected == Properties::default() {
      "expanded-beyond-limit"
    } else if got == Properties::default() {
      "refused-within-limit"
    } else {
      "different"
    };
    return cx.fail(Fail::new(
      format!("properties|bound|{class}"),
      format!(
        "properties field of {} bytes (encoding {:?}): ord returns {} but the limits ({}:1, {} bytes) give {}",
        properties.len(),
        encoding.as_ref().map(|e| String::from_utf8_lossy(e).to_string()),
        if got == Properties::default() { "default" } else { "a value" },
        MAX_RATIO,
        MAX_SIZE,
        if expected == Properties::default() { "default" } else { "a value" }
      ),
    ));
  }
  cx.sample(4, || json!({"properties_len": properties.len(), "encoding": encoding.as_ref().map(|e| String::from_utf8_lossy(e).to_string()), "decoded_default": got == Properties::default()}));
  Ok(())
}

fn bound_strategy(thorough: bool) -> BoxedStrategy<BoundCase> {
  let big = if thorough { 4_200_000u32 } else { 3_850_000 };
  prop_oneof![
    4 => (proptest::collection::vec(any::<u8>(), 0..200), proptest::option::of(prop_oneof![Just(b"br".to_vec()), Just(b"gzip".to_vec()), proptest::collection::vec(any::<u8>(), 0..4)]))
      .prop_map(|(properties, encoding)| BoundCase::Raw { properties, encoding }),
    // valid cbor prefix with junk
    2 => (properties_strategy(), proptest::collection::vec(any::<u8>(), 0..8), any::<bool>()).prop_map(|(p, junk, br)| {
      let properties = properties_of(&p);
      let mut cbor = verif::properties_to_packed_cbor(&properties).unwrap_or_default();
      cbor.extend(junk);
      if br {
        BoundCase::Raw { properties: brotli_compress(&cbor, 5), encoding: Some(b"br".to_vec()) }
      } else {
        BoundCase::Raw { properties: cbor, encoding: None }
      }
    }),
    // truncated / corrupted brotli
    1 => (proptest::collection::vec(any::<u8>(), 0..60), any::<u16>()).prop_map(|(data, cut)| {
      let mut c = brotli_compress(&data, 5);
      let keep = crate::util::pick_index(cut, c.len() + 1);
      c.truncate(keep);
      BoundCase::Raw { properties: c, encoding: Some(b"br".to_vec()) }
    }),
    // compression-ratio boundary: random part r bytes (hex doubles it), then repeat
    6 => (proptest::collection::vec(any::<u8>(), 0..600), 0u32..60_000, 1u8..8)
      .prop_map(|(random, repeat, quality)| BoundCase::Bomb { random, repeat, quality }),
    // aimed at the ratio limit: compressed size ~ random.len() + 20, so repeat ~ 30x that
    6 => (proptest::collection::vec(any::<u8>(), 20..400), 20u32..40, 0u32..200, 3u8..8)
      .prop_map(|(random, factor, jitter, quality)| {
        let estimate = random.len() as u32 + 25;
        let target = estimate * factor;
        let repeat = target.saturating_sub(random.len() as u32 * 2) + jitter;
        BoundCase::Bomb { random, repeat, quality }
      }),
    // absolute size limit: D = 280,000 + repeat (+ a few bytes of CBOR framing)
    1 => (any::<u64>(), prop_oneof![3_719_900u32..3_720_100, 3_600_000u32..big]).prop_map(|(seed, repeat)| BoundCase::SizeBomb { seed, repeat }),
  ]
  .boxed()
}

pub fn c28(s: &mut Session) -> Meta {
  let t = s.tier();
  s.run_part(
    Part::new(
      "roundtrip",
      t.pick(5_000, 200_000),
      properties_strategy,
      properties_check,
    )
    .shrink_iters(300),
  );
  let thorough = t == crate::runner::Tier::Thorough;
  s.run_part(
    Part::new(
      "bounds",
      t.pick(6_000, 300_000),
      move || bound_strategy(thorough),
      bound_check,
    )
    .shrink_iters(300),
  );
  Meta {
    level: "exploration",
    rule: "Part roundtrip: Properties with 0..40 gallery items (ids with index 0 and > 0 at byte-length boundaries, shared txids), titles and 0..4 uniquely named traits (bool/int/null/string) are encoded inline and packed (hooks) and through Inscription::new with and without compression, then decoded (hooks, and after a reveal-script round trip): must equal the original. Part bounds: arbitrary bytes with absent/br/gzip/junk encodings, valid CBOR with junk, truncated brotli, and brotli 'bombs' (valid properties whose title is random hex followed by up to 5 MB of one letter, compressed by the harness, aimed at the 30:1 ratio and the 4,000,000-byte limits): no panic, and with D = size produced by the harness' own decompressor, D > min(30*len, 4,000,000) => default properties, otherwise == from_cbor(decompressed). Non-trivial = value with >= 2 items and a trait (roundtrip), compressed field whose expansion is within 10% of its limit (bounds).",
    assumptions: &["brotli itself is trusted (the harness uses the same crate to build and measure the compressed fields)"],
    required_labels: &["two-items-and-trait", "nonzero-index", "brotli-chosen", "uncompressed-chosen", "uncompressed-bytes", "unknown-encoding", "invalid-brotli", "refused-ratio", "expanded-within-limits", "within-10pct-of-limit", "refused-size"],
  }
}
