//! C25: runestones round-trip; deciphering is total and yields the
//! documented flaws, decided against a reference decipherer written from
//! docs/src/runes/specification.md and the property statement.

use {
  crate::{
    runner::{CheckResult, Cx, Fail, Meta, Part, Session, fingerprint},
    util::boundary_u128,
  },
  bitcoin::{
    Amount, ScriptBuf, Transaction, TxOut, absolute::LockTime, transaction::Version,
  },
  ordinals::{Artifact, Edict, Etching, Rune, RuneId, Runestone, Terms},
  proptest::prelude::*,
  serde::{Deserialize, Serialize},
  serde_json::json,
  std::collections::BTreeMap,
};

// ------------------------------------------------------ reference model

#[derive(Debug, Clone, PartialEq, Eq, Serialize, Deserialize)]
pub enum RefFlaw {
  EdictOutput,
  EdictRuneId,
  InvalidScript,
  Opcode,
  SupplyOverflow,
  TrailingIntegers,
  TruncatedField,
  UnrecognizedEvenTag,
  UnrecognizedFlag,
  Varint,
}

#[derive(Debug, Clone, PartialEq, Eq, Default)]
pub struct RefTerms {
  pub amount: Option<u128>,
  pub cap: Option<u128>,
  pub height: (Option<u64>, Option<u64>),
  pub offset: (Option<u64>, Option<u64>),
}

#[derive(Debug, Clone, PartialEq, Eq, Default)]
pub struct RefEtching {
  pub divisibility: Option<u8>,
  pub premine: Option<u128>,
  pub rune: Option<u128>,
  pub spacers: Option<u32>,
  pub symbol: Option<char>,
  pub terms: Option<RefTerms>,
  pub turbo: bool,
}

#[derive(Debug, Clone, PartialEq, Eq)]
pub enum RefArtifact {
  Runestone {
    edicts: Vec<(u64, u32, u128, u32)>,
    etching: Option<RefEtching>,
    mint: Option<(u64, u32)>,
    pointer: Option<u32>,
  },
  Cenotaph {
    flaw: RefFlaw,
    mint: Option<(u64, u32)>,
    etching: Option<u128>,
  },
}

enum ScriptItem {
  Push(Vec<u8>),
  Op(u8),
}

/// Bitcoin script tokenizer from the opcode table: 0x00 empty push,
/// 0x01..=0x4b direct push, 0x4c/0x4d/0x4e PUSHDATA1/2/4. Anything else is
/// an opcode. `Err` = push runs past the end of the script.
fn tokenize(script: &[u8]) -> Vec<Result<ScriptItem, ()>> {
  let mut items = Vec::new();
  let mut i = 0;
  while i < script.len() {
    let op = script[i];
    i += 1;
    let len = match op {
      0x00..=0x4b => Some(usize::from(op)),
      0x4c => {
        if i + 1 > script.len() {
          items.push(Err(()));
          return items;
        }
        let n = usize::from(script[i]);
        i += 1;
        Some(n)
      }
      0x4d => {
        if i + 2 > script.len() {
          items.push(Err(()));
          return items;
        }
        let n = usize::from(u16::from_le_bytes([script[i], script[i + 1]]));
        i += 2;
        Some(n)
      }
      0x4e => {
        if i + 4 > script.len() {
          items.push(Err(()));
          return items;
        }
        let n = u32::from_le_bytes([script[i], script[i + 1], script[i + 2], script[i + 3]]) as usize;
        i += 4;
        Some(n)
      }
      _ => None,
    };
    match len {
      None => items.push(Ok(ScriptItem::Op(op))),
      Some(n) => {
        if n > script.len() - i {
          items.push(Err(()));
          return items;
        }
        items.push(Ok(ScriptItem::Push(script[i..i + n].to_vec())));
        i += n;
      }
    }
  }
  items
}

const OP_RETURN: u8 = 0x6a;
const OP_13: u8 = 0x5d;

fn ref_varints(payload: &[u8]) -> Option<Vec<u128>> {
  let mut out = Vec::new();
  let mut i = 0;
  while i < payload.len() {
    let mut value: u128 = 0;
    let mut n = 0usize;
    loop {
      // running off the end of the payload: truncated varint
      let byte = *payload.get(i + n)?;
      if n > 18 {
        return None; // more than 19 bytes
      }
      if n == 18 && byte & 0x7c != 0 {
        return None; // does not fit 128 bits
      }
      value |= u128::from(byte & 0x7f) << (7 * n);
      n += 1;
      if byte & 0x80 == 0 {
        break;
      }
    }
    out.push(value);
    i += n;
  }
  Some(out)
}

/// Takes `N` leading values of `tag` if all are present and `convert`
/// accepts them; consumed values are removed, a fully consumed tag vanishes.
fn take<const N: usize, T>(
  fields: &mut BTreeMap<u128, Vec<u128>>,
  tag: u128,
  convert: impl Fn([u128; N]) -> Option<T>,
) -> Option<T> {
  let values = fields.get(&tag)?;
  if values.len() < N {
    return None;
  }
  let mut array = [0u128; N];
  array.copy_from_slice(&values[..N]);
  let result = convert(array)?;
  let values = fields.get_mut(&tag).unwrap();
  values.drain(..N);
  if values.is_empty() {
    fields.remove(&tag);
  }
  Some(result)
}

pub fn ref_decipher(output_scripts: &[Vec<u8>]) -> Option<RefArtifact> {
  let outputs = output_scripts.len();
  // 1. first output beginning with OP_RETURN OP_13
  let mut payload = None;
  for script in output_scripts {
    let items = tokenize(script);
    let mut iter = items.into_iter();
    if !matches!(iter.next(), Some(Ok(ScriptItem::Op(OP_RETURN)))) {
      continue;
    }
    if !matches!(iter.next(), Some(Ok(ScriptItem::Op(OP_13)))) {
      continue;
    }
    let mut buffer = Vec::new();
    let mut script_flaw = None;
    for item in iter {
      match item {
        Ok(ScriptItem::Push(data)) => buffer.extend(data),
        Ok(ScriptItem::Op(_)) => {
          script_flaw = Some(RefFlaw::Opcode);
          break;
        }
        Err(()) => {
          script_flaw = Some(RefFlaw::InvalidScript);
          break;
        }
      }
    }
    payload = Some(match script_flaw {
      Some(flaw) => Err(flaw),
      None => Ok(buffer),
    });
    break;
  }
  let payload = match payload? {
    Ok(payload) => payload,
    Err(flaw) => {
      return Some(RefArtifact::Cenotaph {
        flaw,
        mint: None,
        etching: None,
      });
    }
  };

  // 3. integers
  let Some(integers) = ref_varints(&payload) else {
    return Some(RefArtifact::Cenotaph {
      flaw: RefFlaw::Varint,
      mint: None,
      etching: None,
    });
  };

  // 4. untyped message
  let mut flaw: Option<RefFlaw> = None;
  let mut fields: BTreeMap<u128, Vec<u128>> = BTreeMap::new();
  let mut edicts = Vec::new();
  let mut i = 0;
  while i < integers.len() {
    let tag = integers[i];
    if tag == 0 {
      let body = &integers[i + 1..];
      let mut base: (u64, u32) = (0, 0);
      let mut k = 0;
      while k < body.len() {
        if body.len() - k < 4 {
          flaw.get_or_insert(RefFlaw::TrailingIntegers);
          break;
        }
        let (db, dt, amount, output) = (body[k], body[k + 1], body[k + 2], body[k + 3]);
        // delta decoding
        let id = (|| {
          let db64 = u64::try_from(db).ok()?;
          let block = base.0.checked_add(db64)?;
          let tx = if db == 0 {
            base.1.checked_add(u32::try_from(dt).ok()?)?
          } else {
            u32::try_from(dt).ok()?
          };
          if block == 0 && tx > 0 {
            return None;
          }
          Some((block, tx))
        })();
        let Some(id) = id else {
          flaw.get_or_insert(RefFlaw::EdictRuneId);
          break;
        };
        let output = match u32::try_from(output) {
          Ok(output) if (output as usize) <= outputs => output,
          _ => {
            flaw.get_or_insert(RefFlaw::EdictOutput);
            break;
          }
        };
        base = id;
        edicts.push((id.0, id.1, amount, output));
        k += 4;
      }
      break;
    }
    let Some(&value) = integers.get(i + 1) else {
      flaw.get_or_insert(RefFlaw::TruncatedField);
      break;
    };
    fields.entry(tag).or_default().push(value);
    i += 2;
  }

  // 5. typed runestone
  let mut flags = take(&mut fields, 2, |[f]| Some(f)).unwrap_or(0);
  let mut take_flag = |bit: u32| {
    let set = flags & (1u128 << bit) != 0;
    flags &= !(1u128 << bit);
    set
  };
  let etching_flag = take_flag(0);
  let etching = if etching_flag {
    let divisibility = take(&mut fields, 1, |[d]| {
      u8::try_from(d).ok().filter(|d| *d <= 38)
    });
    let premine = take(&mut fields, 6, |[p]| Some(p));
    let rune = take(&mut fields, 4, |[r]| Some(r));
    let spacers = take(&mut fields, 3, |[s]| {
      u32::try_from(s).ok().filter(|s| *s <= 0x07ff_ffff)
    });
    let symbol = take(&mut fields, 5, |[s]| {
      char::from_u32(u32::try_from(s).ok()?)
    });
    let terms = if take_flag(1) {
      let cap = take(&mut fields, 8, |[c]| Some(c));
      let height_start = take(&mut fields, 12, |[h]| u64::try_from(h).ok());
      let height_end = take(&mut fields, 14, |[h]| u64::try_from(h).ok());
      let amount = take(&mut fields, 10, |[a]| Some(a));
      let offset_start = take(&mut fields, 16, |[h]| u64::try_from(h).ok());
      let offset_end = take(&mut fields, 18, |[h]| u64::try_from(h).ok());
      Some(RefTerms {
        amount,
        cap,
        height: (height_start, height_end),
        offset: (offset_start, offset_end),
      })
    } else {
      None
    };
    let turbo = take_flag(2);
    Some(RefEtching {
      divisibility,
      premine,
      rune,
      spacers,
      symbol,
      terms,
      turbo,
    })
  } else {
    None
  };
  let _ = &mut take_flag;
  let remaining_flags = flags;

  let mint = take(&mut fields, 20, |[block, tx]| {
    let block = u64::try_from(block).ok()?;
    let tx = u32::try_from(tx).ok()?;
    if block == 0 && tx > 0 {
      return None;
    }
    Some((block, tx))
  });

  let pointer = take(&mut fields, 22, |[p]| {
    u32::try_from(p).ok().filter(|p| (*p as usize) < outputs)
  });

  if let Some(etching) = &etching {
    let premine = etching.premine.unwrap_or(0);
    let cap = etching.terms.as_ref().and_then(|t| t.cap).unwrap_or(0);
    let amount = etching.terms.as_ref().and_then(|t| t.amount).unwrap_or(0);
    let overflow = cap
      .checked_mul(amount)
      .and_then(|m| m.checked_add(premine))
      .is_none();
    if overflow {
      flaw.get_or_insert(RefFlaw::SupplyOverflow);
    }
  }
  if remaining_flags != 0 {
    flaw.get_or_insert(RefFlaw::UnrecognizedFlag);
  }
  if fields.keys().any(|tag| tag % 2 == 0) {
    flaw.get_or_insert(RefFlaw::UnrecognizedEvenTag);
  }

  Some(match flaw {
    Some(flaw) => RefArtifact::Cenotaph {
      flaw,
      mint,
      etching: etching.and_then(|e| e.rune),
    },
    None => RefArtifact::Runestone {
      edicts,
      etching,
      mint,
      pointer,
    },
  })
}

pub fn from_ord(artifact: &Artifact) -> RefArtifact {
  use ordinals::Flaw;
  match artifact {
    Artifact::Cenotaph(c) => RefArtifact::Cenotaph {
      flaw: match c.flaw.expect("a cenotaph has a flaw") {
        Flaw::EdictOutput => RefFlaw::EdictOutput,
        Flaw::EdictRuneId => RefFlaw::EdictRuneId,
        Flaw::InvalidScript => RefFlaw::InvalidScript,
        Flaw::Opcode => RefFlaw::Opcode,
        Flaw::SupplyOverflow => RefFlaw::SupplyOverflow,
        Flaw::TrailingIntegers => RefFlaw::TrailingIntegers,
        Flaw::TruncatedField => RefFlaw::TruncatedField,
        Flaw::UnrecognizedEvenTag => RefFlaw::UnrecognizedEvenTag,
        Flaw::UnrecognizedFlag => RefFlaw::UnrecognizedFlag,
        Flaw::Varint => RefFlaw::Varint,
      },
      mint: c.mint.map(|id| (id.block, id.tx)),
      etching: c.etching.map(|r| r.0),
    },
    Artifact::Runestone(r) => RefArtifact::Runestone {
      edicts: r
        .edicts
        .iter()
        .map(|e| (e.id.block, e.id.tx, e.amount, e.output))
        .collect(),
      etching: r.etching.map(|e| RefEtching {
        divisibility: e.divisibility,
        premine: e.premine,
        rune: e.rune.map(|r| r.0),
        spacers: e.spacers,
        symbol: e.symbol,
        terms: e.terms.map(|t| RefTerms {
          amount: t.amount,
          cap: t.cap,
          height: t.height,
          offset: t.offset,
        }),
        turbo: e.turbo,
      }),
      mint: r.mint.map(|id| (id.block, id.tx)),
      pointer: r.pointer,
    },
  }
}

pub fn tx_with_scripts(scripts: &[Vec<u8>]) -> Transaction {
  Transaction {
    version: Version(2),
    lock_time: LockTime::ZERO,
    input: Vec::new(),
    output: scripts
      .iter()
      .map(|s| TxOut {
        value: Amount::from_sat(0),
        script_pubkey: ScriptBuf::from_bytes(s.clone()),
      })
      .collect(),
  }
}

// ------------------------------------------------------------ generators

#[derive(Clone, Debug, Serialize, Deserialize)]
pub struct EdictSpec {
  pub block: u64,
  pub tx: u32,
  pub amount: String,
  pub output: u32,
}

#[derive(Clone, Debug, Serialize, Deserialize)]
pub struct EtchingSpec {
  pub divisibility: Option<u8>,
  pub premine: Option<String>,
  pub rune: Option<String>,
  pub spacers: Option<u32>,
  pub symbol: Option<char>,
  pub terms: Option<(Option<String>, Option<String>, Option<u64>, Option<u64>, Option<u64>, Option<u64>)>,
  pub turbo: bool,
}

#[derive(Clone, Debug, Serialize, Deserialize)]
pub struct RoundTripCase {
  pub other_outputs: usize,
  pub runestone_position: usize,
  pub edicts: Vec<EdictSpec>,
  pub etching: Option<EtchingSpec>,
  pub mint: Option<(u64, u32)>,
  pub pointer: Option<u32>,
}

fn p(s: &Option<String>) -> Option<u128> {
  s.as_ref().map(|s| s.parse().unwrap())
}

fn roundtrip_check(case: &RoundTripCase, cx: &Cx) -> CheckResult {
  let outputs = case.other_outputs + 1;
  let runestone = Runestone {
    edicts: case
      .edicts
      .iter()
      .map(|e| Edict {
        id: RuneId {
          block: e.block,
          tx: e.tx,
        },
        amount: e.amount.parse().unwrap(),
        output: e.output % (outputs as u32 + 1),
      })
      .collect(),
    etching: case.etching.as_ref().map(|e| Etching {
      divisibility: e.divisibility,
      premine: p(&e.premine),
      rune: p(&e.rune).map(Rune),
      spacers: e.spacers,
      symbol: e.symbol,
      terms: e.terms.as_ref().map(|t| Terms {
        amount: p(&t.0),
        cap: p(&t.1),
        height: (t.2, t.3),
        offset: (t.4, t.5),
      }),
      turbo: e.turbo,
    }),
    mint: case.mint.map(|(block, tx)| RuneId { block, tx }),
    pointer: case.pointer.map(|p| p % outputs as u32),
  };
  // well-formedness: supply must not overflow (otherwise a cenotaph is the
  // documented outcome)
  if let Some(etching) = runestone.etching
    && etching.supply().is_none()
  {
    cx.label("skipped-supply-overflow");
    return Ok(());
  }
  let script = runestone.encipher();
  let mut scripts: Vec<Vec<u8>> = (0..case.other_outputs)
    .map(|i| vec![0x51, i as u8])
    .collect();
  let position = case.runestone_position % outputs;
  scripts.insert(position, script.to_bytes());
  let tx = tx_with_scripts(&scripts);

  let mut expected_edicts = runestone.edicts.clone();
  expected_edicts.sort_by_key(|e| e.id); // stable
  let expected = Artifact::Runestone(Runestone {
    edicts: expected_edicts,
    etching: runestone.etching,
    mint: runestone.mint,
    pointer: runestone.pointer,
  });
  let got = Runestone::decipher(&tx);
  if got.as_ref() != Some(&expected) {
    return cx.fail(Fail::new(
      "roundtrip|mismatch",
      format!(
        "decipher(encipher(r)) != r\n r        = {runestone:?}\n expected = {expected:?}\n got      = {got:?}\n script   = {}",
        hex::encode(script.as_bytes())
      ),
    ));
  }
  // the reference must agree as well (validates the reference itself)
  let reference = ref_decipher(&scripts);
  if reference != got.as_ref().map(from_ord) {
    return cx.fail(Fail::new(
      "roundtrip|reference-disagrees",
      format!("reference {reference:?} vs ord {got:?} for script {}", hex::encode(script.as_bytes())),
    ));
  }
  cx.label("roundtrip");
  if !runestone.edicts.is_empty() {
    cx.label("with-edicts");
  }
  if runestone.etching.is_some() {
    cx.label("with-etching");
  }
  if runestone.etching.and_then(|e| e.terms).is_some() {
    cx.label("with-terms");
  }
  if !runestone.edicts.is_empty() && runestone.etching.is_some() {
    cx.nontrivial(fingerprint(&hex::encode(script.as_bytes())));
  }
  cx.sample(2, || json!({"runestone": format!("{runestone:?}"), "script": hex::encode(script.as_bytes())}));
  Ok(())
}

fn opt<T: std::fmt::Debug + Clone + 'static>(s: impl Strategy<Value = T> + 'static) -> BoxedStrategy<Option<T>> {
  proptest::option::weighted(0.6, s).boxed()
}

fn u128_string() -> BoxedStrategy<String> {
  boundary_u128().prop_map(|n| n.to_string()).boxed()
}

fn rune_id_strategy() -> BoxedStrategy<(u64, u32)> {
  prop_oneof![
    3 => (1u64..1000, 0u32..10),
    1 => Just((0u64, 0u32)),
    1 => (1u64..=u64::MAX, any::<u32>()),
    1 => (crate::util::boundary_u64().prop_map(|b| b.max(1)), prop_oneof![Just(0u32), Just(u32::MAX), any::<u32>()]),
  ]
  .boxed()
}

fn roundtrip_strategy() -> BoxedStrategy<RoundTripCase> {
  let edict = (rune_id_strategy(), u128_string(), any::<u32>()).prop_map(|((block, tx), amount, output)| EdictSpec {
    block,
    tx,
    amount,
    output,
  });
  let terms = (
    opt(u128_string()),
    opt(prop_oneof![Just("0".to_string()), Just("1".to_string()), (0u128..1000).prop_map(|n| n.to_string()), u128_string()]),
    opt(crate::util::boundary_u64()),
    opt(crate::util::boundary_u64()),
    opt(crate::util::boundary_u64()),
    opt(crate::util::boundary_u64()),
  );
  let etching = (
    opt(0u8..=38),
    opt(u128_string()),
    opt(u128_string()),
    opt(prop_oneof![Just(0u32), Just(0x07ff_ffff), 0u32..=0x07ff_ffff]),
    opt(any::<char>()),
    opt(terms),
    any::<bool>(),
  )
    .prop_map(|(divisibility, premine, rune, spacers, symbol, terms, turbo)| EtchingSpec {
      divisibility,
      premine,
      rune,
      spacers,
      symbol,
      terms,
      turbo,
    });
  (
    0usize..5,
    0usize..6,
    proptest::collection::vec(edict, 0..7),
    opt(etching),
    opt(rune_id_strategy()),
    opt(any::<u32>()),
  )
    .prop_map(|(other_outputs, runestone_position, edicts, etching, mint, pointer)| RoundTripCase {
      other_outputs,
      runestone_position,
      edicts,
      etching,
      mint,
      pointer,
    })
    .boxed()
}

// --- integer-sequence / script level

#[derive(Clone, Debug, Serialize, Deserialize)]
pub enum ScriptShape {
  /// OP_RETURN OP_13 <pushes of payload split at `cuts`> with optional damage
  Stone {
    integers: Vec<String>,
    cuts: Vec<u16>,
    push_style: Vec<u8>,
    damage: Damage,
  },
  Raw(Vec<u8>),
  Plain(u8),
}

#[derive(Clone, Debug, Serialize, Deserialize)]
pub enum Damage {
  None,
  InsertOpcode { at: u16, opcode: u8 },
  TruncateScript { bytes: u8 },
  BadVarintTail(Vec<u8>),
  NoMagic,
  PushedMagic,
  LeadingGarbage(u8),
}

#[derive(Clone, Debug, Serialize, Deserialize)]
pub struct DecipherCase {
  pub outputs: Vec<ScriptShape>,
}

fn leb128(mut n: u128, out: &mut Vec<u8>) {
  loop {
    let byte = (n & 0x7f) as u8;
    n >>= 7;
    if n == 0 {
      out.push(byte);
      return;
    }
    out.push(byte | 0x80);
  }
}

fn push_data(script: &mut Vec<u8>, data: &[u8], style: u8) {
  let n = data.len();
  match style % 4 {
    0 if n <= 0x4b => script.push(n as u8),
    1 if n <= 0xff => {
      script.push(0x4c);
      script.push(n as u8);
    }
    2 if n <= 0xffff => {
      script.push(0x4d);
      script.extend((n as u16).to_le_bytes());
    }
    3 => {
      script.push(0x4e);
      script.extend((n as u32).to_le_bytes());
    }
    _ => {
      if n <= 0x4b {
        script.push(n as u8);
      } else if n <= 0xff {
        script.push(0x4c);
        script.push(n as u8);
      } else {
        script.push(0x4d);
        script.extend((n as u16).to_le_bytes());
      }
    }
  }
  script.extend(data);
}

fn build_script(shape: &ScriptShape) -> Vec<u8> {
  match shape {
    ScriptShape::Raw(bytes) => bytes.clone(),
    ScriptShape::Plain(k) => vec![0x51, *k],
    ScriptShape::Stone {
      integers,
      cuts,
      push_style,
      damage,
    } => {
      let mut payload = Vec::new();
      for n in integers {
        leb128(n.parse().unwrap(), &mut payload);
      }
      if let Damage::BadVarintTail(tail) = damage {
        payload.extend(tail);
      }
      let mut script = Vec::new();
      if let Damage::LeadingGarbage(b) = damage {
        script.push(*b);
      }
      script.push(OP_RETURN);
      match damage {
        Damage::NoMagic => {}
        Damage::PushedMagic => {
          script.push(0x01);
          script.push(13);
        }
        _ => script.push(OP_13),
      }
      let body_start = script.len();
      let mut positions: Vec<usize> = cuts
        .iter()
        .map(|c| crate::util::pick_index(*c, payload.len() + 1))
        .collect();
      positions.sort();
      let mut previous = 0;
      let mut k = 0;
      for position in positions.into_iter().chain([payload.len()]) {
        let style = push_style.get(k).copied().unwrap_or(0);
        k += 1;
        if position == previous && position != 0 && style % 3 != 0 {
          continue;
        }
        push_data(&mut script, &payload[previous..position], style);
        previous = position;
      }
      match damage {
        Damage::InsertOpcode { at, opcode } => {
          // insert at an instruction boundary: re-tokenize to find boundaries
          let mut boundaries = vec![body_start];
          let mut i = body_start;
          while i < script.len() {
            let op = script[i];
            let (header, len) = match op {
              0x00..=0x4b => (1, usize::from(op)),
              0x4c => (2, usize::from(script[i + 1])),
              0x4d => (3, usize::from(u16::from_le_bytes([script[i + 1], script[i + 2]]))),
              0x4e => (5, u32::from_le_bytes([script[i + 1], script[i + 2], script[i + 3], script[i + 4]]) as usize),
              _ => (1, 0),
            };
            i += header + len;
            boundaries.push(i.min(script.len()));
          }
          let b = boundaries[crate::util::pick_index(*at, boundaries.len())];
          script.insert(b, *opcode);
        }
        Damage::TruncateScript { bytes } => {
          let keep = script.len().saturating_sub(usize::from(*bytes) % 6 + 1);
          script.truncate(keep.max(1));
        }
        _ => {}
      }
      script
    }
  }
}

pub fn decipher_check(case: &DecipherCase, cx: &Cx) -> CheckResult {
  let scripts: Vec<Vec<u8>> = case.outputs.iter().map(build_script).collect();
  let tx = tx_with_scripts(&scripts);
  let got = match crate::runner::catch(|| Runestone::decipher(&tx)) {
    Ok(got) => got,
    Err(record) => {
      return cx.fail(Fail::new(
        format!("decipher|panic|{}", crate::runner::panic_site(&record)),
        format!(
          "Runestone::decipher panics at {}: {} for scripts {:?}",
          record.location,
          record.message,
          scripts.iter().map(hex::encode).collect::<Vec<_>>()
        ),
      ));
    }
  };
  let reference = ref_decipher(&scripts);
  let got_ref = got.as_ref().map(from_ord);
  if got_ref != reference {
    let class = match (&got_ref, &reference) {
      (None, Some(_)) => "missed",
      (Some(_), None) => "spurious",
      (Some(RefArtifact::Cenotaph { flaw: a, .. }), Some(RefArtifact::Cenotaph { flaw: b, .. })) if a != b => "flaw-order",
      (Some(RefArtifact::Cenotaph { .. }), Some(RefArtifact::Cenotaph { .. })) => "cenotaph-content",
      (Some(RefArtifact::Runestone { .. }), Some(RefArtifact::Runestone { .. })) => "runestone-content",
      _ => "kind",
    };
    return cx.fail(Fail::new(
      format!("decipher|{class}"),
      format!(
        "decipher disagrees with the specification\n scripts   = {:?}\n ord       = {got_ref:?}\n reference = {reference:?}",
        scripts.iter().map(hex::encode).collect::<Vec<_>>()
      ),
    ));
  }
  match &reference {
    None => cx.label("no-runestone"),
    Some(RefArtifact::Cenotaph { flaw, etching, mint }) => {
      cx.label(&format!("flaw-{flaw:?}"));
      if etching.is_some() || mint.is_some() {
        cx.label("cenotaph-keeps-etching-or-mint");
      }
      cx.nontrivial(fingerprint(&scripts));
    }
    Some(RefArtifact::Runestone { edicts, etching, .. }) => {
      cx.label("runestone");
      if !edicts.is_empty() && etching.is_some() {
        cx.label("runestone-edicts-and-etching");
        cx.nontrivial(fingerprint(&scripts));
      }
    }
  }
  cx.sample(6, || json!({"scripts": scripts.iter().map(hex::encode).collect::<Vec<_>>(), "result": format!("{reference:?}")}));
  Ok(())
}

fn field_value(tag: u128) -> BoxedStrategy<u128> {
  match tag {
    2 => prop_oneof![
      6 => 0u128..8,
      1 => any::<u128>(),
      1 => (0u32..128).prop_map(|b| 1u128 << b),
      1 => (0u128..8, 3u32..128).prop_map(|(low, b)| low | 1u128 << b),
    ]
    .boxed(),
    1 => prop_oneof![4 => 0u128..=38, 1 => 39u128..300, 1 => boundary_u128()].boxed(),
    3 => prop_oneof![3 => 0u128..=0x07ff_ffff, 1 => Just(0x0800_0000u128), 1 => boundary_u128()].boxed(),
    5 => prop_oneof![3 => 0u128..0x11_0000, 1 => 0xd800u128..0xe000, 1 => boundary_u128()].boxed(),
    12 | 14 | 16 | 18 => prop_oneof![3 => 0u128..1000, 1 => Just(u128::from(u64::MAX)), 1 => Just(u128::from(u64::MAX) + 1), 1 => boundary_u128()].boxed(),
    20 => prop_oneof![3 => 0u128..100, 1 => boundary_u128()].boxed(),
    22 => prop_oneof![4 => 0u128..8, 1 => boundary_u128()].boxed(),
    _ => prop_oneof![2 => 0u128..1000, 1 => boundary_u128()].boxed(),
  }
}

fn message_strategy() -> BoxedStrategy<Vec<String>> {
  let tag = prop_oneof![
    10 => proptest::sample::select(vec![2u128, 4, 6, 8, 10, 12, 14, 16, 18, 20, 20, 22, 1, 3, 5, 1, 3, 5, 7, 9]),
    1 => proptest::sample::select(vec![126u128, 127, 24, 7, 9, 128, 1 << 64]),
    1 => 0u128..300,
  ];
  let field = tag.prop_flat_map(|t| (Just(t), field_value(t)));
  let edict_ints = prop_oneof![
    4 => (0u128..50, 0u128..10, boundary_u128(), 0u128..3).prop_map(|(a, b, c, d)| vec![a, b, c, d]),
    1 => (boundary_u128(), boundary_u128(), boundary_u128(), boundary_u128()).prop_map(|(a, b, c, d)| vec![a, b, c, d]),
    1 => (Just(0u128), 1u128..5, 0u128..10, 0u128..3).prop_map(|(a, b, c, d)| vec![a, b, c, d]),
  ];
  // a coherent etching prefix: flags with the etching (and terms) bit and
  // supply fields, so that valid etchings and supply overflows are common
  let prefix = proptest::option::weighted(
    0.5,
    (
      prop_oneof![Just(1u128), Just(3), Just(5), Just(7)],
      proptest::option::of(boundary_u128()),
      proptest::option::of(prop_oneof![0u128..5, boundary_u128()]),
      proptest::option::of(prop_oneof![0u128..1000, boundary_u128()]),
      proptest::option::of(boundary_u128()),
    ),
  );
  (
    prefix,
    proptest::collection::vec(field, 0..8),
    proptest::option::weighted(0.6, (proptest::collection::vec(edict_ints, 0..5), prop_oneof![4 => Just(0usize), 1 => 1usize..4])),
    proptest::option::weighted(0.1, boundary_u128()),
  )
    .prop_map(|(prefix, fields, body, dangling)| {
      let mut ints = Vec::new();
      if let Some((flags, premine, cap, amount, rune)) = prefix {
        ints.extend([2, flags]);
        if let Some(rune) = rune {
          ints.extend([4, rune]);
        }
        if let Some(premine) = premine {
          ints.extend([6, premine]);
        }
        if flags & 2 != 0 {
          if let Some(cap) = cap {
            ints.extend([8, cap]);
          }
          if let Some(amount) = amount {
            ints.extend([10, amount]);
          }
        }
      }
      for (t, v) in fields {
        ints.push(t);
        ints.push(v);
      }
      if let Some(tag) = dangling {
        if body.is_none() {
          ints.push(if tag == 0 { 1 } else { tag });
        }
      }
      if let Some((edicts, trailing)) = body {
        ints.push(0);
        for e in edicts {
          ints.extend(e);
        }
        for k in 0..trailing {
          if trailing < 4 {
            ints.push(k as u128);
          }
        }
      }
      ints.into_iter().map(|n| n.to_string()).collect()
    })
    .boxed()
}

fn decipher_strategy() -> BoxedStrategy<DecipherCase> {
  let damage = prop_oneof![
    12 => Just(Damage::None),
    2 => (any::<u16>(), prop_oneof![Just(0x51u8), Just(0x5d), Just(0x6a), Just(0x4f), Just(0x61), 0x4fu8..=0xff]).prop_map(|(at, opcode)| Damage::InsertOpcode { at, opcode }),
    2 => any::<u8>().prop_map(|bytes| Damage::TruncateScript { bytes }),
    2 => prop_oneof![
      Just(vec![0x80u8]),
      Just(vec![0xff; 19]),
      Just(vec![0x80; 18].into_iter().chain([0x04]).collect::<Vec<u8>>()),
      Just(vec![0x80; 19].into_iter().chain([0x00]).collect::<Vec<u8>>()),
      proptest::collection::vec(0x80u8..=0xff, 1..22),
    ].prop_map(Damage::BadVarintTail),
    1 => Just(Damage::NoMagic),
    1 => Just(Damage::PushedMagic),
    1 => any::<u8>().prop_map(Damage::LeadingGarbage),
  ];
  let stone = (
    message_strategy(),
    proptest::collection::vec(any::<u16>(), 0..4),
    proptest::collection::vec(any::<u8>(), 0..5),
    damage,
  )
    .prop_map(|(integers, cuts, push_style, damage)| ScriptShape::Stone {
      integers,
      cuts,
      push_style,
      damage,
    });
  let output = prop_oneof![
    5 => stone,
    3 => any::<u8>().prop_map(ScriptShape::Plain),
    1 => proptest::collection::vec(any::<u8>(), 0..40).prop_map(ScriptShape::Raw),
    1 => proptest::collection::vec(any::<u8>(), 0..30).prop_map(|mut v| {
      let mut s = vec![OP_RETURN, OP_13];
      s.append(&mut v);
      ScriptShape::Raw(s)
    }),
  ];
  proptest::collection::vec(output, 0..6)
    .prop_map(|outputs| DecipherCase { outputs })
    .boxed()
}

pub fn c25(s: &mut Session) -> Meta {
  let t = s.tier();
  s.run_part(Part::new(
    "roundtrip",
    t.pick(300_000, 1_000_000),
    roundtrip_strategy,
    roundtrip_check,
  ));
  s.run_part(Part::new(
    "decipher",
    t.pick(1_200_000, 4_000_000),
    decipher_strategy,
    decipher_check,
  ));
  Meta {
    level: "exploration",
    rule: "Part roundtrip: well-formed Runestone values (0..6 edicts with ids 0:0, small, u64/u32 extremes; etching with any subset of fields within bounds and non-overflowing supply; terms; mint; pointer < outputs) are enciphered into a transaction with 1..5 outputs and deciphered; result must equal the value with edicts stably sorted by id, and the reference decipherer must agree. Part decipher: transactions with 0..5 outputs, each a runestone script built from a generated tag/value/edict integer sequence (duplicate tags, out-of-range values, unknown tags/flags, dangling tags, trailing integers, bad deltas/outputs) split into arbitrary pushes (direct, PUSHDATA1/2/4, empty) with optional damage (inserted opcode, truncated script, malformed varint tail, missing/pushed magic, leading garbage), plain scripts or raw bytes; ord's result must equal a reference decipherer written from the specification text exactly (artifact kind, flaw, kept etching/mint, every field). Non-trivial = runestone with >= 1 edict and an etching, or any cenotaph; distinct by script bytes.",
    assumptions: &["The reference decipherer in harness/src/props/runestone.rs implements docs/src/runes/specification.md and the flaw precedence of the property statement"],
    required_labels: &[
      "roundtrip", "with-edicts", "with-etching", "with-terms", "no-runestone", "runestone", "runestone-edicts-and-etching",
      "flaw-EdictOutput", "flaw-EdictRuneId", "flaw-InvalidScript", "flaw-Opcode", "flaw-SupplyOverflow", "flaw-TrailingIntegers",
      "flaw-TruncatedField", "flaw-UnrecognizedEvenTag", "flaw-UnrecognizedFlag", "flaw-Varint", "cenotaph-keeps-etching-or-mint",
    ],
  }
}
