//! C13: a crash at any point leaves a consistent index that resumes
//! correctly. The indexing run happens in a worker process (this binary,
//! `--internal-c13-worker`) that ord's hook H2 aborts at the armed point.

use {
  crate::{
    chain::{
      BlockSpec, ChainSpec,
      strategy::{Profile, block_spec, chain_spec},
    },
    history::{self, masked},
    node::{IndexConfig, Node, open_index, scratch_dir},
    props::{
      reorg::build,
      sats::{ScheduleSpec, schedule_spec},
    },
    runner::{CheckResult, Cx, Fail, Meta, Part, Session, fingerprint},
  },
  bitcoin::{Block, Network},
  ord::verif::{CRASH_POINTS, Dump},
  proptest::prelude::*,
  serde::{Deserialize, Serialize},
  serde_json::json,
  std::{
    os::unix::process::ExitStatusExt,
    path::Path,
    process::{Command, Stdio},
  },
};

#[derive(Clone, Debug, Serialize, Deserialize)]
pub struct CrashCase {
  pub chain: ChainSpec,
  pub sats: bool,
  pub addresses: bool,
  pub runes: bool,
  pub commit_interval: u8,
  pub savepoint_interval: u8,
  pub integration_test: bool,
  pub schedule: ScheduleSpec,
  /// replace the last `depth` blocks by `blocks` (+1 empty) and update again
  pub reorg: Option<(u8, Vec<BlockSpec>)>,
  pub point: u8,
  pub nth: u8,
}

fn config_of(case: &CrashCase) -> IndexConfig {
  IndexConfig {
    sats: case.sats,
    addresses: case.addresses,
    transactions: false,
    runes: case.runes,
    no_inscriptions: false,
    commit_interval: if case.commit_interval == 0 { 5000 } else { usize::from(case.commit_interval) },
    savepoint_interval: usize::from(case.savepoint_interval.clamp(2, 10)),
    max_savepoints: 2,
    integration_test: case.integration_test,
    first_inscription_height: None,
  }
}

fn point_of(case: &CrashCase) -> &'static str {
  // reorg points only make sense when the case has a reorg; with a reorg
  // every other case arms one of them
  let reorg_points: Vec<&'static str> = CRASH_POINTS.iter().copied().filter(|p| p.starts_with("reorg.")).collect();
  let other_points: Vec<&'static str> = CRASH_POINTS.iter().copied().filter(|p| !p.starts_with("reorg.")).collect();
  if case.reorg.is_some() && case.point % 2 == 1 {
    reorg_points[usize::from(case.point / 2) % reorg_points.len()]
  } else {
    other_points[usize::from(case.point / 2) % other_points.len()]
  }
}

/// chain A and, with a reorg, the final chain B
fn chains(case: &CrashCase) -> (Vec<Block>, Option<Vec<Block>>) {
  let network = Network::Regtest;
  let mut specs: Vec<(BlockSpec, u32)> = Vec::new();
  for _ in 0..case.chain.prefix {
    specs.push((empty(), 0));
  }
  for b in &case.chain.blocks {
    specs.push((b.clone(), 0));
  }
  let a = build(network, &specs);
  let b = case.reorg.as_ref().map(|(depth, blocks)| {
    let depth = usize::from(*depth).clamp(1, specs.len());
    let old_len = specs.len();
    let mut specs = specs.clone();
    specs.truncate(old_len - depth);
    for block in blocks {
      specs.push((block.clone(), 1));
    }
    while specs.len() < old_len + 1 {
      specs.push((empty(), 1));
    }
    build(network, &specs)
  });
  (a, b)
}

fn empty() -> BlockSpec {
  use crate::chain::{ClaimSpec, CoinbaseSpec, OutSpec, ScriptKind};
  BlockSpec {
    coinbase: CoinbaseSpec {
      outputs: vec![OutSpec {
        weight: 1,
        zero: false,
        script: ScriptKind::P2tr(1),
      }],
      claim: ClaimSpec::Full,
      duplicate_of_earlier: None,
      runestone: None,
    },
    txs: Vec::new(),
  }
}

/// The uninterrupted procedure, also run by the worker.
fn procedure(case: &CrashCase, dir: &Path) -> anyhow::Result<()> {
  let network = Network::Regtest;
  let (a, b) = chains(case);
  let node = Node::new(network);
  let index = open_index(&node, dir, &config_of(case))?;
  for (stop, _) in case.schedule.stops(a.len()) {
    node.set_chain(&a[..stop]);
    index.update()?;
  }
  if let Some(b) = b {
    node.set_chain(&b);
    // an unrecoverable reorg is a legitimate outcome of the procedure
    let _ = index.update();
  }
  Ok(())
}

pub fn worker(args: &[String]) -> i32 {
  let Some(case_path) = args.first() else {
    return 2;
  };
  let Some(dir) = args.get(1) else {
    return 2;
  };
  let Ok(text) = std::fs::read_to_string(case_path) else {
    return 2;
  };
  let Ok(case) = serde_json::from_str::<CrashCase>(&text) else {
    return 2;
  };
  match procedure(&case, Path::new(dir)) {
    Ok(()) => 0,
    Err(err) => {
      eprintln!("worker error: {err:#}");
      3
    }
  }
}

/// The executable the crash workers are started from: a hard link to this
/// process' binary taken once per run, so that a rebuild of the harness by a
/// concurrent `./check` cannot pull the file from under a long run. Stale
/// links of dead processes are removed.
fn worker_exe() -> std::io::Result<std::path::PathBuf> {
  static EXE: std::sync::OnceLock<std::path::PathBuf> = std::sync::OnceLock::new();
  if let Some(path) = EXE.get() {
    return Ok(path.clone());
  }
  let current = std::env::current_exe()?;
  let dir = current.parent().map(|p| p.to_path_buf()).unwrap_or_default();
  if let Ok(entries) = std::fs::read_dir(&dir) {
    for entry in entries.flatten() {
      let name = entry.file_name().to_string_lossy().to_string();
      if let Some(pid) = name.strip_prefix("ordverif-c13-") {
        if !std::path::Path::new("/proc").join(pid).exists() {
          let _ = std::fs::remove_file(entry.path());
        }
      }
    }
  }
  let link = dir.join(format!("ordverif-c13-{}", std::process::id()));
  let _ = std::fs::remove_file(&link);
  let path = match std::fs::hard_link(&current, &link) {
    Ok(()) => link,
    Err(_) => current,
  };
  Ok(EXE.get_or_init(|| path).clone())
}

pub fn remove_worker_exe() {
  if let Ok(current) = std::env::current_exe() {
    if let Some(dir) = current.parent() {
      let _ = std::fs::remove_file(dir.join(format!("ordverif-c13-{}", std::process::id())));
    }
  }
}

fn harness<E: std::fmt::Display>(what: &str) -> impl Fn(E) -> Fail + '_ {
  move |e| Fail::new("HARNESS-FAULT", format!("{what}: {e:#}"))
}

fn fresh_dump(config: &IndexConfig, blocks: Option<&[Block]>) -> Result<Dump, Fail> {
  let network = Network::Regtest;
  match blocks {
    None => {
      let node = Node::new(network);
      let dir = scratch_dir();
      let index = open_index(&node, dir.path(), config).map_err(harness("open fresh"))?;
      ord::verif::dump(&index).map_err(harness("dump"))
    }
    Some(blocks) => {
      let run = history::index_chain(network, config, blocks).map_err(harness("fresh index"))?;
      run.dump().map_err(harness("dump"))
    }
  }
}

fn c13_check(case: &CrashCase, cx: &Cx) -> CheckResult {
  let network = Network::Regtest;
  let config = config_of(case);
  let point = point_of(case);
  let nth = if point.starts_with("reorg.") { 1 } else { u32::from(case.nth % 6) + 1 };
  let (a, b) = chains(case);
  let last = b.as_ref().unwrap_or(&a);

  let dir = scratch_dir();
  let case_file = dir.path().join("case.json");
  let index_dir = dir.path().join("data");
  std::fs::create_dir_all(&index_dir).map_err(harness("mkdir"))?;
  std::fs::write(&case_file, serde_json::to_string(case).unwrap()).map_err(harness("write case"))?;
  let exe = worker_exe().map_err(harness("worker executable"))?;
  let status = Command::new("sh")
    .arg("-c")
    .arg("ulimit -c 0; exec \"$0\" \"$@\"")
    .arg(&exe)
    .arg("--internal-c13-worker")
    .arg(&case_file)
    .arg(&index_dir)
    .env("ORD_VERIF_CRASH", format!("{point}:{nth}"))
    .stdout(Stdio::null())
    .stderr(Stdio::null())
    .status()
    .map_err(harness("spawn worker"))?;
  let fired = status.signal().is_some();
  if !fired && status.code() != Some(0) {
    return Err(Fail::new(
      "HARNESS-FAULT",
      format!("worker exited with {status:?} without reaching the crash point"),
    ));
  }

  // --- a fresh process image: new node, reopen the index directory
  let node = Node::new(network);
  node.set_chain(last);
  let index = match crate::runner::catch(|| open_index(&node, &index_dir, &config)) {
    Ok(Ok(index)) => index,
    Ok(Err(err)) => {
      return cx.fail(Fail::new(
        format!("c13|reopen-failed|{point}"),
        format!("after a crash at {point}:{nth} the index cannot be opened: {err:#}"),
      ));
    }
    Err(record) => {
      return cx.fail(Fail::new(
        format!("c13|reopen-panic|{point}"),
        format!("after a crash at {point}:{nth} opening the index panics at {}: {}", record.location, record.message),
      ));
    }
  };
  let reopened = ord::verif::dump(&index).map_err(harness("dump"))?;
  let blocks_indexed = reopened.headers.len();

  // (1) the state is that of some fully committed height of A or of B
  let on_chain = |chain: &[Block]| {
    blocks_indexed <= chain.len() + 1
      && reopened.headers.iter().enumerate().skip(1).all(|(h, (_, header))| {
        bitcoin::consensus::encode::serialize(&chain[h - 1].header) == *header
      })
  };
  let base: Option<&Vec<Block>> = if on_chain(&a) {
    Some(&a)
  } else if b.as_ref().is_some_and(|b| on_chain(b)) {
    b.as_ref()
  } else {
    None
  };
  let Some(base) = base else {
    return cx.fail(Fail::new(
      format!("c13|mixed-chain|{point}"),
      format!("after a crash at {point}:{nth} the indexed headers are neither a prefix of the old nor of the new branch"),
    ));
  };
  let expected = if blocks_indexed == 0 {
    fresh_dump(&config, None)?
  } else {
    fresh_dump(&config, Some(&base[..blocks_indexed - 1]))?
  };
  if let Some(difference) = history::diff(&masked(&reopened), &masked(&expected)) {
    let table = difference.split(' ').nth(1).unwrap_or("?").to_string();
    return cx.fail(Fail::new(
      format!("c13|inconsistent-after-crash|{table}"),
      format!(
        "after a crash at {point}:{nth} the reopened index ({blocks_indexed} blocks) is not the state of a fully committed height: {difference}"
      ),
    ));
  }

  // (2) continuing produces the content of an uninterrupted run
  let resumed = crate::runner::catch(|| index.update());
  match resumed {
    Err(record) => {
      return cx.fail(Fail::new(
        format!("c13|resume-panic|{point}"),
        format!("after a crash at {point}:{nth} continuing panics at {}: {}", record.location, record.message),
      ));
    }
    Ok(Err(err)) => {
      let text = format!("{err:#}");
      if text.contains("unrecoverable reorg") && b.is_some() {
        cx.label("resume-unrecoverable-reorg");
      } else {
        return cx.fail(Fail::new(
          format!("c13|resume-error|{point}"),
          format!("after a crash at {point}:{nth} continuing fails: {text}"),
        ));
      }
    }
    Ok(Ok(())) => {
      let after = ord::verif::dump(&index).map_err(harness("dump"))?;
      let uninterrupted = fresh_dump(&config, Some(last))?;
      if let Some(difference) = history::diff(&masked(&after), &masked(&uninterrupted)) {
        let table = difference.split(' ').nth(1).unwrap_or("?").to_string();
        return cx.fail(Fail::new(
          format!("c13|resume-differs|{table}"),
          format!(
            "after a crash at {point}:{nth} (reopened with {blocks_indexed} blocks) continuing to the tip gives different content than an uninterrupted run: {difference}"
          ),
        ));
      }
      cx.label("resumed-to-tip");
    }
  }

  if fired {
    cx.label(&format!("fired-{point}"));
    let behind = last.len() + 1 - blocks_indexed.min(last.len() + 1);
    if behind > 0 || b.is_some() {
      cx.nontrivial(fingerprint(&format!("{case:?}")));
    }
  } else {
    cx.label("crash-point-not-reached");
  }
  if b.is_some() {
    cx.label("with-reorg");
  }
  cx.sample(4, || json!({"point": point, "nth": nth, "fired": fired, "blocks": a.len(), "reorg": case.reorg.as_ref().map(|r| r.0), "blocks_after_reopen": blocks_indexed}));
  Ok(())
}

fn case_strategy(max_blocks: usize) -> BoxedStrategy<CrashCase> {
  let mut profile = Profile::mixed();
  profile.blocks = 2..max_blocks;
  profile.txs = 0..3;
  profile.prefix = vec![0, 4, 9, 9, 12];
  let p2 = profile.clone();
  (
    chain_spec(&profile),
    (any::<bool>(), proptest::bool::weighted(0.3), any::<bool>()),
    prop_oneof![3 => 1u8..5, 1 => Just(0u8)],
    prop_oneof![3 => 2u8..5, 1 => 5u8..=10],
    proptest::bool::weighted(0.3),
    schedule_spec(3),
    proptest::option::weighted(0.45, (prop_oneof![4 => 1u8..4, 1 => 4u8..9], proptest::collection::vec(block_spec(&p2), 0..2))),
    any::<u8>(),
    any::<u8>(),
  )
    .prop_map(|(chain, (sats, addresses, runes), commit_interval, savepoint_interval, integration_test, schedule, reorg, point, nth)| CrashCase {
      chain,
      sats,
      addresses,
      runes,
      commit_interval,
      savepoint_interval,
      integration_test,
      schedule,
      reorg,
      point,
      nth,
    })
    .prop_map(|mut case| {
      // a rollback needs a savepoint below the fork point: with a reorg use
      // intervals that make shallow reorgs recoverable
      if case.reorg.is_some() && case.savepoint_interval < 4 {
        case.savepoint_interval += 3;
      }
      case
    })
    .boxed()
}

pub fn c13(s: &mut Session) -> Meta {
  let t = s.tier();
  let max_blocks = t.pick(10, 24);
  s.run_part(
    Part::new("crash-points", t.pick(320, 3_000), move || case_strategy(max_blocks), c13_check)
      .shrink_iters(60)
      .timeout(400),
  );
  remove_worker_exe();
  Meta {
    level: "fault_enumeration",
    rule: "Fault space: 13 crash points on the indexing path (block.before, block.after_utxo, block.after_runes, commit.before, commit.after_first, commit.after_second, savepoint.before_delete, savepoint.after_delete_commit, savepoint.after_create, savepoint.after_create_commit, reorg.before_restore, reorg.after_restore, reorg.after_commit) x occurrence 1..6 x generated histories (mixed-profile chains of 2..9 blocks (thorough ..23) plus an empty prefix of 0/4/9 blocks, commit interval 1..4 or 5000, savepoint interval 2..10, 1..4 update calls, in 40% a reorganisation of depth 1..8 followed by another update). A worker process runs the history with the point armed and is killed by abort(). A fresh process image then opens the index: it must open, its headers must be a prefix of the old or the new branch, and its masked dump must equal a from-scratch index of exactly that many blocks (a fully committed height); continuing to the tip must give the masked dump of an uninterrupted from-scratch run (or, with a reorganisation, report it unrecoverable). Non-trivial = the armed point actually fired and the reopened index was behind the tip or a reorganisation was involved; distinct by case.",
    assumptions: &[
      "crash = process death (abort); the OS page cache survives, so torn writes / power loss inside redb are out of reach",
      "crash points are the 13 hook sites H2; points inside redb are not instrumented",
    ],
    required_labels: &[
      "fired-block.before", "fired-block.after_utxo", "fired-block.after_runes", "fired-commit.before", "fired-commit.after_first",
      "fired-commit.after_second", "fired-savepoint.before_delete", "fired-savepoint.after_delete_commit", "fired-savepoint.after_create",
      "fired-savepoint.after_create_commit", "fired-reorg.before_restore", "fired-reorg.after_restore", "fired-reorg.after_commit", "resumed-to-tip",
    ],
  }
}
