//! C19: inscription content is served faithfully and sandboxed.

use {
  crate::{
    node::IndexConfig,
    runner::{CheckResult, Cx, Fail, Meta, Part, Session, fingerprint},
    server::{Response, ServerOptions, SimpleChain, TestServer, p2tr},
    util::pick_index,
  },
  bitcoin::{Network, OutPoint},
  ord::{Inscription, InscriptionId},
  proptest::prelude::*,
  serde::{Deserialize, Serialize},
  serde_json::json,
  std::io::Write,
};

#[derive(Clone, Debug, Serialize, Deserialize)]
pub enum Encoding {
  None,
  /// real brotli body
  Brotli,
  /// content-encoding gzip with an arbitrary body
  Gzip,
  Junk,
}

#[derive(Clone, Debug, Serialize, Deserialize)]
pub enum DelegateSpec {
  /// index of an earlier inscription of the case
  Existing(u16),
  Missing,
  /// an earlier inscription that the case hides, if there is one (else any
  /// earlier one)
  Hidden(u16),
}

#[derive(Clone, Debug, Serialize, Deserialize)]
pub struct InscSpec {
  pub content_type: Option<Vec<u8>>,
  pub encoding: Encoding,
  pub body: Option<Vec<u8>>,
  pub delegate: Option<DelegateSpec>,
  /// inscribe on the same sat as an earlier inscription of the case
  pub reinscribe: Option<u16>,
}

#[derive(Clone, Debug, Serialize, Deserialize)]
pub struct ContentCase {
  pub inscriptions: Vec<InscSpec>,
  pub csp_origin: bool,
  pub decompress: bool,
  pub hidden: Vec<u16>,
  pub sat_index: bool,
  pub transactions_index: bool,
}

fn brotli(data: &[u8]) -> Vec<u8> {
  let mut out = Vec::new();
  {
    let mut w = brotli::CompressorWriter::new(&mut out, 4096, 5, 22);
    w.write_all(data).unwrap();
  }
  out
}

fn marker(k: usize) -> Vec<u8> {
  format!("<<MARK-{k}-7f3a9c{k}e1>>").into_bytes()
}

struct Built {
  /// plain (un-encoded) body with marker, stored body, stored encoding
  plain: Option<Vec<u8>>,
  stored: Option<Vec<u8>>,
  encoding: Option<Vec<u8>>,
  content_type: Option<Vec<u8>>,
  delegate: Option<InscriptionId>,
  id: InscriptionId,
  sat_group: usize,
}

const ACCEPTS: [Option<&str>; 6] = [
  None,
  Some("identity"),
  Some("br"),
  Some("gzip"),
  Some("gzip;q=0.5, br;q=1.0"),
  Some("junk-enc, deflate"),
];

fn acceptable(accept: Option<&str>, encoding: &str) -> bool {
  accept
    .unwrap_or("identity")
    .split(',')
    .any(|v| v.split(';').next().unwrap_or("").trim() == encoding)
}

fn valid_header_value(bytes: &[u8]) -> bool {
  // what the http crate accepts in a header value: no control bytes
  bytes.iter().all(|b| (*b >= 0x20 && *b != 0x7f) || *b == b'\t')
}

fn harness<E: std::fmt::Display>(what: &str) -> impl Fn(E) -> Fail + '_ {
  move |e| Fail::new("HARNESS-FAULT", format!("{what}: {e:#}"))
}

const ORIGIN: &str = "https://ordinals.example";

/// Every source expression of a content-route CSP value must come from the
/// documented sandbox: same-origin (or configured-origin) content and
/// recursive endpoints, inline/eval, data: and blob:.
fn csp_allowed(value: &str, origin: Option<&str>) -> Result<(), String> {
  for directive in value.split(';') {
    let mut words = directive.split_whitespace();
    let Some(name) = words.next() else { continue };
    if name != "default-src" {
      return Err(format!("directive `{name}`"));
    }
    for source in words {
      let ok = match source {
        "'unsafe-eval'" | "'unsafe-inline'" | "data:" | "blob:" => true,
        "'self'" => origin.is_none(),
        s => {
          let prefix = match origin {
            None => "*:*",
            Some(o) => o,
          };
          s.strip_prefix(prefix).is_some_and(|path| {
            matches!(path, "/content/" | "/blockheight" | "/blockhash" | "/blockhash/" | "/blocktime" | "/r/")
          })
        }
      };
      if !ok {
        return Err(format!("source `{source}`"));
      }
    }
  }
  Ok(())
}

fn check_csp(response: &Response, origin: Option<&str>, content_route: bool, path: &str) -> Result<(), Fail> {
  let values = response.header_values("content-security-policy");
  if values.is_empty() {
    return Err(Fail::new(
      "c19|csp-missing",
      format!("GET {path} -> {} without a Content-Security-Policy header", response.status),
    ));
  }
  if content_route && response.status == 200 {
    for value in &values {
      if let Err(what) = csp_allowed(value, origin) {
        return Err(Fail::new(
          "c19|csp-too-permissive",
          format!("GET {path}: Content-Security-Policy `{value}` contains {what}, outside the content sandbox"),
        ));
      }
    }
  }
  Ok(())
}

fn c19_check(case: &ContentCase, cx: &Cx) -> CheckResult {
  let network = Network::Regtest;
  let n = case.inscriptions.len();
  let mut chain = SimpleChain::new(network);
  chain.mine_n(n + 2);
  let mut built: Vec<Built> = Vec::new();
  // location of the sat group's current output
  let mut group_output: Vec<OutPoint> = Vec::new();
  for (k, spec) in case.inscriptions.iter().enumerate() {
    let plain = spec.body.as_ref().map(|b| {
      let mut v = marker(k);
      v.extend(b);
      v
    });
    let (stored, encoding) = match (&plain, &spec.encoding) {
      (None, Encoding::None) => (None, None),
      (None, Encoding::Brotli) => (None, Some(b"br".to_vec())),
      (None, Encoding::Gzip) => (None, Some(b"gzip".to_vec())),
      (None, Encoding::Junk) => (None, Some(b"junk-enc".to_vec())),
      (Some(p), Encoding::None) => (Some(p.clone()), None),
      (Some(p), Encoding::Brotli) => (Some(brotli(p)), Some(b"br".to_vec())),
      (Some(p), Encoding::Gzip) => (Some(p.clone()), Some(b"gzip".to_vec())),
      (Some(p), Encoding::Junk) => (Some(p.clone()), Some(b"junk-enc".to_vec())),
    };
    let delegate = spec.delegate.as_ref().and_then(|d| match d {
      DelegateSpec::Existing(i) => {
        if built.is_empty() {
          None
        } else {
          Some(built[pick_index(*i, built.len())].id)
        }
      }
      DelegateSpec::Hidden(i) => {
        let hidden_earlier: Vec<usize> = case
          .hidden
          .iter()
          .map(|h| pick_index(*h, n))
          .filter(|h| *h < built.len())
          .collect();
        if built.is_empty() {
          None
        } else if hidden_earlier.is_empty() {
          Some(built[pick_index(*i, built.len())].id)
        } else {
          Some(built[hidden_earlier[pick_index(*i, hidden_earlier.len())]].id)
        }
      }
      DelegateSpec::Missing => Some(InscriptionId {
        txid: {
          use bitcoin::hashes::Hash;
          bitcoin::Txid::from_byte_array([0xab; 32])
        },
        index: 0,
      }),
    });
    let mut inscription = Inscription::new(
      ord::Chain::Regtest,
      false,
      delegate,
      None,
      None,
      Vec::new(),
      None,
      None,
      Default::default(),
      None,
    )
    .map_err(harness("inscription"))?;
    inscription.body = stored.clone();
    inscription.content_type = spec.content_type.clone();
    inscription.content_encoding = encoding.clone();
    let (input, sat_group) = match spec.reinscribe {
      Some(r) if !built.is_empty() => {
        let target = pick_index(r, built.len());
        let g = built[target].sat_group;
        (group_output[g], g)
      }
      _ => {
        group_output.push(chain.coinbases[group_output.len()]);
        (group_output[group_output.len() - 1], group_output.len() - 1)
      }
    };
    let ids = chain.reveal(input, &[inscription], p2tr(3));
    // reveals on the same sat must be in different blocks (they spend each other)
    chain.mine();
    group_output[sat_group] = OutPoint {
      txid: ids[0].txid,
      vout: 0,
    };
    built.push(Built {
      plain,
      stored,
      encoding,
      content_type: spec.content_type.clone(),
      delegate,
      id: ids[0],
      sat_group,
    });
  }
  chain.mine();

  let hidden: Vec<InscriptionId> = case
    .hidden
    .iter()
    .map(|h| built[pick_index(*h, built.len())].id)
    .collect();
  let config = IndexConfig {
    sats: case.sat_index,
    addresses: false,
    transactions: case.transactions_index,
    runes: false,
    no_inscriptions: false,
    commit_interval: 5000,
    savepoint_interval: 10,
    max_savepoints: 2,
    integration_test: true,
    first_inscription_height: None,
  };
  let origin = case.csp_origin.then_some(ORIGIN);
  let server = TestServer::start(
    network,
    &config,
    &chain.blocks,
    &ServerOptions {
      csp_origin: origin.map(String::from),
      decompress: case.decompress,
      hidden: hidden.clone(),
      disable_json_api: false,
    },
  )
  .map_err(harness("server"))?;

  let is_hidden = |id: &InscriptionId| hidden.contains(id);
  let by_id = |id: &InscriptionId| built.iter().find(|b| b.id == *id);
  let mut requests = 0u64;
  let mut saw_not_acceptable = false;
  let mut saw_delegate = false;
  let mut saw_hidden = false;

  // the expected outcome of serving inscription `t`'s content
  let expect = |t: &Built, accept: Option<&str>| -> Expected {
    let Some(stored) = &t.stored else {
      // "inscription content not found" unless the encoding is refused first
      if let Some(e) = &t.encoding {
        let e = String::from_utf8_lossy(e).to_string();
        if !acceptable(accept, &e) && !(case.decompress && e == "br") {
          return Expected::NotAcceptable;
        }
      }
      return Expected::NotFound;
    };
    let content_type = match &t.content_type {
      Some(ct) if std::str::from_utf8(ct).is_ok() && valid_header_value(ct) => String::from_utf8_lossy(ct).to_string(),
      _ => "application/octet-stream".to_string(),
    };
    match &t.encoding {
      None => Expected::Body {
        content_type,
        encoding: None,
        body: stored.clone(),
      },
      Some(e) => {
        let e = String::from_utf8_lossy(e).to_string();
        if acceptable(accept, &e) {
          Expected::Body {
            content_type,
            encoding: Some(e),
            body: stored.clone(),
          }
        } else if case.decompress && e == "br" {
          Expected::Body {
            content_type,
            encoding: None,
            body: t.plain.clone().unwrap(),
          }
        } else {
          Expected::NotAcceptable
        }
      }
    }
  };

  let judge = |path: &str, response: &Response, expected: Expected, accept: Option<&str>| -> Result<(), Fail> {
    match expected {
      Expected::NotFound => {
        if response.status != 404 {
          return Err(Fail::new(
            "c19|expected-not-found",
            format!("GET {path} (accept-encoding {accept:?}) -> {} but there is nothing to serve", response.status),
          ));
        }
      }
      Expected::NotAcceptable => {
        if response.status != 406 {
          return Err(Fail::new(
            "c19|expected-not-acceptable",
            format!("GET {path} (accept-encoding {accept:?}) -> {}: the stored content encoding is not accepted and must be refused", response.status),
          ));
        }
      }
      Expected::Body {
        content_type,
        encoding,
        body,
      } => {
        if response.status != 200 {
          return Err(Fail::new(
            "c19|expected-content",
            format!("GET {path} (accept-encoding {accept:?}) -> {} instead of the content", response.status),
          ));
        }
        // optional whitespace around a field value is not part of it (RFC 9110
        // 5.5): a stored type of " " arrives as the empty value
        let ows = |s: &str| s.trim_matches(|c| c == ' ' || c == '\t').to_string();
        if response.header("content-type").map(|h| ows(&h)) != Some(ows(content_type.as_str())) {
          return Err(Fail::new(
            "c19|content-type",
            format!("GET {path}: content-type {:?}, stored type gives `{content_type}`", response.header("content-type")),
          ));
        }
        match encoding {
          Some(e) => {
            if response.header("content-encoding").as_deref() != Some(e.as_str()) || response.body != body {
              return Err(Fail::new(
                "c19|passthrough",
                format!(
                  "GET {path} (accept-encoding {accept:?}): stored encoding `{e}` is accepted, so the stored bytes must be passed through; got content-encoding {:?}, {} bytes (stored {})",
                  response.header("content-encoding"),
                  response.body.len(),
                  body.len()
                ),
              ));
            }
          }
          None => {
            if response.decoded_body() != body {
              return Err(Fail::new(
                "c19|body",
                format!(
                  "GET {path} (accept-encoding {accept:?}): body differs from the inscription's content ({} vs {} bytes)",
                  response.decoded_body().len(),
                  body.len()
                ),
              ));
            }
          }
        }
      }
    }
    Ok(())
  };

  for (k, b) in built.iter().enumerate() {
    for (a, accept) in ACCEPTS.iter().enumerate() {
      // spread the accept headers over the inscriptions
      if n > 3 && (a + k) % 2 == 1 {
        continue;
      }
      for route in ["content", "r/undelegated-content", "preview"] {
        let path = format!("/{route}/{}", b.id);
        let response = server.get(&path, *accept, false).map_err(harness("request"))?;
        requests += 1;
        check_csp(&response, origin, false, &path).or_else(|f| cx.fail(f))?;
        if response.status >= 500 {
          cx.fail(Fail::new("c19|server-error", format!("GET {path} -> {}", response.status)))?;
        }
        // hidden content is never served, directly or through a delegate
        let target = if route == "r/undelegated-content" { None } else { b.delegate.as_ref().and_then(|d| by_id(d)) };
        let mut forbidden: Vec<&Built> = Vec::new();
        if is_hidden(&b.id) {
          forbidden.push(b);
          if let Some(t) = target {
            forbidden.push(t);
          }
        }
        if let Some(t) = target
          && is_hidden(&t.id)
        {
          forbidden.push(t);
          let iframe = t
            .content_type
            .as_ref()
            .is_some_and(|c| c.starts_with(b"text/html") || c.starts_with(b"image/svg+xml"));
          if !is_hidden(&b.id) {
            cx.label("delegate-to-hidden");
            if iframe && route == "preview" && t.plain.is_some() {
              cx.label("preview-of-delegate-to-hidden-iframe");
            }
          }
        }
        let decoded = response.decoded_body();
        for f in &forbidden {
          saw_hidden = true;
          let leaked = f.plain.as_ref().is_some_and(|p| {
            let m = marker(built.iter().position(|x| x.id == f.id).unwrap());
            let _ = p;
            decoded.windows(m.len()).any(|w| w == m.as_slice())
          }) || f.stored.as_ref().is_some_and(|s| !s.is_empty() && (response.body == *s));
          if leaked {
            let how = if f.id == b.id { "directly" } else { "through-delegate" };
            cx.fail(Fail::new(
              format!("c19|hidden-served|{how}|{route}"),
              format!("GET {path}: the content of hidden inscription {} is served ({how})", f.id),
            ))?;
          }
        }
        if !forbidden.is_empty() {
          continue;
        }
        if route == "preview" {
          continue;
        }
        // real inscription content: only the sandbox sources are allowed
        check_csp(&response, origin, true, &path).or_else(|f| cx.fail(f))?;
        // faithful content
        let expected = if route == "content" {
          match &b.delegate {
            Some(d) => {
              saw_delegate = true;
              match by_id(d) {
                Some(t) => expect(t, *accept),
                None => Expected::NotFound,
              }
            }
            None => expect(b, *accept),
          }
        } else {
          expect(b, *accept)
        };
        if matches!(expected, Expected::NotAcceptable) {
          saw_not_acceptable = true;
        }
        judge(&path, &response, expected, *accept).or_else(|f| cx.fail(f))?;
        if response.status == 200 {
          let cache = response.header("cache-control").unwrap_or_default();
          if !cache.contains("immutable") {
            cx.fail(Fail::new("c19|cache-control", format!("GET {path}: cache-control `{cache}`")))?;
          }
        }
      }
    }
  }

  // content addressed relative to the sat
  if case.sat_index {
    let groups = group_output.len();
    for g in 0..groups {
      let members: Vec<&Built> = built.iter().filter(|b| b.sat_group == g).collect();
      let sat = crate::model::first_sat((g + 1) as u64);
      for index in [0isize, -1, 1, -2] {
        let position = if index >= 0 {
          index as usize
        } else {
          match members.len().checked_sub(index.unsigned_abs()) {
            Some(p) => p,
            None => continue,
          }
        };
        let Some(member) = members.get(position) else { continue };
        let path = format!("/r/sat/{sat}/at/{index}/content");
        let response = server.get(&path, None, false).map_err(harness("request"))?;
        requests += 1;
        // the placeholder served instead of hidden content (the member's own
        // or its delegate's) is ord's page, not inscription content
        let hidden_involved = is_hidden(&member.id)
          || member.delegate.as_ref().and_then(|d| by_id(d)).is_some_and(|t| is_hidden(&t.id));
        check_csp(&response, origin, !hidden_involved, &path).or_else(|f| cx.fail(f))?;
        let cache = response.header("cache-control").unwrap_or_default();
        if index < 0 && response.status == 200 && cache.contains("immutable") {
          cx.fail(Fail::new(
            "c19|negative-index-cached",
            format!("GET {path}: cache-control `{cache}` for content addressed relative to the newest inscription"),
          ))?;
        }
        if index < 0 {
          cx.label("negative-sat-index");
        }
        if !is_hidden(&member.id) && member.delegate.is_none() {
          judge(&path, &response, expect(member, None), None).or_else(|f| cx.fail(f))?;
        }
      }
    }
  }

  // ordinary pages and error paths carry a CSP too
  for path in [
    "/".to_string(),
    "/status".to_string(),
    "/blockheight".to_string(),
    "/no-such-page".to_string(),
    format!("/inscription/{}", built[0].id),
    format!("/content/{}i0", "00".repeat(32)),
    "/content/not-an-id".to_string(),
    "/r/blockhash".to_string(),
    "/static/index.css".to_string(),
  ] {
    let response = server.get(&path, None, false).map_err(harness("request"))?;
    requests += 1;
    check_csp(&response, origin, false, &path).or_else(|f| cx.fail(f))?;
  }

  cx.add_extra("http_requests", requests);
  if saw_delegate {
    cx.label("delegate");
  }
  if saw_hidden {
    cx.label("hidden");
  }
  if saw_not_acceptable {
    cx.label("not-acceptable-encoding");
  }
  if case.decompress {
    cx.label("decompress");
  }
  if case.csp_origin {
    cx.label("csp-origin");
  }
  if built.iter().any(|b| b.content_type.as_ref().is_some_and(|c| !valid_header_value(c))) {
    cx.label("invalid-content-type-bytes");
  }
  if saw_delegate && saw_hidden && saw_not_acceptable {
    cx.nontrivial(fingerprint(&format!("{case:?}")));
  }
  cx.sample(3, || json!({"inscriptions": case.inscriptions.len(), "hidden": case.hidden.len(), "csp_origin": case.csp_origin, "decompress": case.decompress, "requests": requests}));
  Ok(())
}

enum Expected {
  NotFound,
  NotAcceptable,
  Body {
    content_type: String,
    encoding: Option<String>,
    body: Vec<u8>,
  },
}

fn case_strategy(max: usize) -> BoxedStrategy<ContentCase> {
  let content_type = prop_oneof![
    3 => Just(b"text/plain;charset=utf-8".to_vec()),
    3 => Just(b"text/html".to_vec()),
    1 => Just(b"text/html;charset=utf-8".to_vec()),
    2 => Just(b"image/svg+xml".to_vec()),
    2 => Just(b"image/png".to_vec()),
    1 => Just(b"application/json".to_vec()),
    1 => Just(b"audio/mpeg".to_vec()),
    1 => Just(b"weird/\xff\xfe".to_vec()),
    1 => Just(b"text/plain\nx-injected: 1".to_vec()),
    1 => Just("text/pl\u{e4}in".as_bytes().to_vec()),
    1 => Just(Vec::new()),
    1 => proptest::collection::vec(0x20u8..0x7f, 1..20),
  ];
  let body = prop_oneof![
    3 => proptest::collection::vec(any::<u8>(), 0..40),
    1 => Just(b"<html><script>fetch('/r/blockheight')</script></html>".to_vec()),
    1 => (100usize..600).prop_map(|n| vec![b'x'; n]),
    1 => Just(Vec::new()),
  ];
  let inscription = (
    proptest::option::weighted(0.85, content_type),
    prop_oneof![5 => Just(Encoding::None), 3 => Just(Encoding::Brotli), 1 => Just(Encoding::Gzip), 1 => Just(Encoding::Junk)],
    proptest::option::weighted(0.9, body),
    proptest::option::weighted(0.35, prop_oneof![4 => any::<u16>().prop_map(DelegateSpec::Existing), 1 => Just(DelegateSpec::Missing), 3 => any::<u16>().prop_map(DelegateSpec::Hidden)]),
    proptest::option::weighted(0.25, any::<u16>()),
  )
    .prop_map(|(content_type, encoding, body, delegate, reinscribe)| InscSpec {
      content_type,
      encoding,
      body,
      delegate,
      reinscribe,
    });
  (
    proptest::collection::vec(inscription, 1..max),
    any::<bool>(),
    any::<bool>(),
    proptest::collection::vec(any::<u16>(), 0..3),
    proptest::bool::weighted(0.7),
    any::<bool>(),
  )
    .prop_map(|(inscriptions, csp_origin, decompress, hidden, sat_index, transactions_index)| ContentCase {
      inscriptions,
      csp_origin,
      decompress,
      hidden,
      sat_index,
      transactions_index,
    })
    .boxed()
}

pub fn c19(s: &mut Session) -> Meta {
  let t = s.tier();
  s.run_part(
    Part::new("content-routes", t.pick(160, 3_000), move || case_strategy(7), c19_check)
      .shrink_iters(80)
      .timeout(400)
      .workers(8),
  );
  Meta {
    level: "exploration",
    rule: "Per case 1..6 hand-built inscriptions (content-type bytes: common media types, invalid header bytes, header injection, non-ASCII, empty, random printable; content encoding none / br with a real brotli body / gzip / unknown; bodies empty, binary, HTML, long; delegates to an earlier inscription of the case (which may itself delegate or be hidden) or to a missing id; reinscriptions on the same sat) are mined and served by an in-process `ord server` (--no-sync) with/without --csp-origin, --decompress, 0..2 hidden ids, sat and transaction index. Requests: /content, /r/undelegated-content and /preview for every inscription under six Accept-Encoding values, /r/sat/<n>/at/<0,-1,1,-2>/content, and ordinary and error pages. Oracle per response: body == own body or the delegate's (one level) after undoing transport compression; Content-Type == stored type if a valid header value else application/octet-stream; stored encoding passed through iff listed in Accept-Encoding, decompressed iff --decompress and br, else 406; a Content-Security-Policy header on every response, and on content routes only sources of the documented sandbox; no response contains the marker or stored bytes of a hidden inscription, directly or through a delegator; immutable caching only for non-negative sat indices. Non-trivial = case with a delegate, a hidden inscription and a refused encoding; distinct by case.",
    assumptions: &["Accept-Encoding acceptance is ord's exact-token rule; `*` is not generated", "transport compression by the server's compression layer is undone before comparing bodies"],
    required_labels: &["delegate", "hidden", "delegate-to-hidden", "preview-of-delegate-to-hidden-iframe", "not-acceptable-encoding", "decompress", "csp-origin", "invalid-content-type-bytes", "negative-sat-index"],
  }
}
