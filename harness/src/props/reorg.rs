//! C14: reorganisations within the recoverable depth are fully undone.

use {
  crate::{
    chain::{
      BlockSpec, Builder, ClaimSpec, CoinbaseSpec, OutSpec, ScriptKind,
      strategy::{Profile, block_spec},
    },
    history::{self, Run, masked, statistic},
    node::IndexConfig,
    runner::{CheckResult, Cx, Fail, Meta, Part, Session, fingerprint},
  },
  bitcoin::{Block, Network},
  proptest::prelude::*,
  serde::{Deserialize, Serialize},
  serde_json::json,
  std::{cell::RefCell, collections::BTreeMap, rc::Rc},
};

#[derive(Clone, Debug, Serialize, Deserialize)]
pub enum Op {
  Mine(Vec<BlockSpec>),
  MineEmpty(u8),
  Update,
  Reorg { depth: u8, blocks: Vec<BlockSpec>, extra_empty: u8 },
  Reopen,
}

#[derive(Clone, Debug, Serialize, Deserialize)]
pub struct ReorgCase {
  pub sats: bool,
  pub addresses: bool,
  pub runes: bool,
  pub commit_interval: u8,
  pub savepoint_interval: u8,
  pub max_savepoints: u8,
  pub integration_test: bool,
  pub ops: Vec<Op>,
}

fn empty_block() -> BlockSpec {
  BlockSpec {
    coinbase: CoinbaseSpec {
      outputs: vec![OutSpec {
        weight: 1,
        zero: false,
        script: ScriptKind::P2tr(1),
      }],
      claim: ClaimSpec::Full,
      duplicate_of_earlier: None,
      runestone: None,
    },
    txs: Vec::new(),
  }
}

pub fn build(network: Network, specs: &[(BlockSpec, u32)]) -> Vec<Block> {
  let mut builder = Builder::new(network, 0);
  for (spec, branch) in specs {
    builder.branch = *branch;
    builder.add_block(spec);
  }
  builder.blocks
}

pub fn config_of(case: &ReorgCase) -> IndexConfig {
  IndexConfig {
    sats: case.sats,
    addresses: case.addresses,
    transactions: false,
    runes: case.runes,
    no_inscriptions: false,
    commit_interval: if case.commit_interval == 0 { 5000 } else { usize::from(case.commit_interval) },
    savepoint_interval: usize::from(case.savepoint_interval.clamp(2, 10)),
    max_savepoints: usize::from(case.max_savepoints.clamp(2, 3)),
    integration_test: case.integration_test,
    first_inscription_height: None,
  }
}

#[derive(Default)]
struct ReorgTrace {
  events: Vec<(u32, u32)>,
  livelock: Option<(u32, u32, usize)>,
}

fn harness<E: std::fmt::Display>(what: &str) -> impl Fn(E) -> Fail + '_ {
  move |e| Fail::new("HARNESS-FAULT", format!("{what}: {e:#}"))
}

/// Signature class of a reorg for known-findings: position relative to the
/// savepoints the index holds.
fn classify(height: u32, depth: u32, last_savepoint: u64, interval: usize) -> String {
  let fork = height.saturating_sub(depth);
  format!(
    "fork-{}-last-savepoint|{}",
    if u64::from(fork) < last_savepoint { "below" } else { "at-or-above" },
    if (height as usize) < interval { "height-below-interval" } else { "height-at-or-above-interval" }
  )
}

fn c14_check(case: &ReorgCase, cx: &Cx) -> CheckResult {
  let network = Network::Regtest;
  let config = config_of(case);
  let mut specs: Vec<(BlockSpec, u32)> = Vec::new();
  let mut branch = 0u32;
  let mut run = Run::new(network, &config).map_err(harness("open"))?;
  let mut reorgs = 0u32;
  let mut deep_reorgs = 0u32;
  let mut recovered = 0u32;
  let mut unrecoverable = 0u32;
  let mut pending_reorg: Option<(usize, usize)> = None; // (fork height, old tip)
  let mut indexed_tip = 0usize;
  let mut max_depth_seen = 0usize;

  for (step, op) in case.ops.iter().enumerate() {
    match op {
      Op::Mine(blocks) => {
        for b in blocks {
          specs.push((b.clone(), branch));
        }
      }
      Op::MineEmpty(n) => {
        for _ in 0..*n {
          specs.push((empty_block(), branch));
        }
      }
      Op::Reorg { depth, blocks, extra_empty } => {
        if specs.is_empty() {
          continue;
        }
        let depth = usize::from(*depth).clamp(1, specs.len());
        let old_len = specs.len();
        specs.truncate(old_len - depth);
        branch += 1;
        for b in blocks {
          specs.push((b.clone(), branch));
        }
        // the new branch must have more work than what it replaces
        while specs.len() < old_len + 1 + usize::from(*extra_empty % 3) {
          specs.push((empty_block(), branch));
        }
        reorgs += 1;
        let fork = old_len - depth;
        pending_reorg = Some(match pending_reorg {
          Some((f, t)) => (f.min(fork), t),
          None => (fork, old_len),
        });
      }
      Op::Reopen => {
        run
          .reopen()
          .map_err(|e| Fail::new("c14|reopen", format!("step {step}: reopen failed: {e:#}")))?;
      }
      Op::Update => {
        let blocks = build(network, &specs);
        run.set_chain(&blocks);
        let before = run.dump().map_err(harness("dump"))?;
        let last_savepoint = statistic(&before, history::STAT_LAST_SAVEPOINT_HEIGHT);
        let trace = Rc::new(RefCell::new(ReorgTrace::default()));
        let t2 = trace.clone();
        ord::verif::set_reorg_observer(Some(Box::new(move |height, depth| {
          let mut t = t2.borrow_mut();
          t.events.push((height, depth));
          let same = t.events.iter().filter(|e| **e == (height, depth)).count();
          if same >= 4 {
            t.livelock = Some((height, depth, same));
            return Err(anyhow::anyhow!("verif: livelock"));
          }
          Ok(())
        })));
        let result = run.update();
        ord::verif::set_reorg_observer(None);
        let trace = trace.borrow();
        let real_depth = pending_reorg
          .filter(|(fork, _)| *fork < indexed_tip)
          .map(|(fork, _)| indexed_tip - fork)
          .unwrap_or(0);
        max_depth_seen = max_depth_seen.max(real_depth);
        if let Some((height, depth, times)) = trace.livelock {
          return cx.fail(Fail::new(
            format!("c14|livelock|{}", classify(height, depth, last_savepoint, config.savepoint_interval)),
            format!(
              "step {step}: Index::update does not terminate: the same rollback (reorg of depth {depth} detected at height {height}) was performed {times} times in one call; index had {indexed_tip} blocks, node replaced the last {real_depth}, savepoint interval {}, max savepoints {}, last savepoint height {last_savepoint}",
              config.savepoint_interval, config.max_savepoints
            ),
          ));
        }
        match result {
          Ok(()) => {
            // the index must equal an index built from scratch on the node's chain
            let dump = run.dump().map_err(harness("dump"))?;
            let fresh = history::index_chain(network, &config, &blocks).map_err(harness("fresh index"))?;
            let fresh_dump = fresh.dump().map_err(harness("dump"))?;
            if let Some(difference) = history::diff(&masked(&dump), &masked(&fresh_dump)) {
              let table = difference.split(' ').nth(1).unwrap_or("?").to_string();
              return cx.fail(Fail::new(
                format!("c14|stale-state|{table}"),
                format!(
                  "step {step}: after a reorganisation of depth {real_depth} (index had {indexed_tip} blocks) the index differs from an index built from scratch on the new best chain: {difference}"
                ),
              ));
            }
            if real_depth > 0 {
              recovered += 1;
              if !trace.events.is_empty() {
                cx.label("rollback-performed");
              }
              if u64::try_from(indexed_tip - real_depth).unwrap() < last_savepoint {
                deep_reorgs += 1;
              }
            }
            indexed_tip = blocks.len();
            pending_reorg = None;
          }
          Err(err) => {
            let text = format!("{err:#}");
            if text.contains("unrecoverable reorg") {
              let status = run.index().status(false).map_err(harness("status"))?;
              if !status.unrecoverably_reorged {
                return cx.fail(Fail::new(
                  "c14|unrecoverable-not-flagged",
                  format!("step {step}: update reported an unrecoverable reorg but the status flag is not set"),
                ));
              }
              unrecoverable += 1;
              cx.label("unrecoverable-reported");
              break; // nothing more is promised for this index
            }
            return cx.fail(Fail::new(
              "c14|update-error",
              format!("step {step}: Index::update failed with an unexpected error after a reorganisation of depth {real_depth}: {text}"),
            ));
          }
        }
      }
    }
  }
  if reorgs > 0 {
    cx.label("reorg");
  }
  if recovered > 0 {
    cx.label("recovered");
  }
  if deep_reorgs > 0 {
    cx.label("fork-below-last-savepoint-recovered");
    cx.nontrivial(fingerprint(&format!("{case:?}")));
  }
  cx.label(&format!("max-depth-{}", max_depth_seen.min(12)));
  let _ = unrecoverable;
  cx.sample(4, || {
    json!({
      "config": format!("savepoint_interval={} max_savepoints={} commit_interval={} integration_test={}", config.savepoint_interval, config.max_savepoints, config.commit_interval, config.integration_test),
      "ops": case.ops.iter().map(|op| match op {
        Op::Mine(b) => format!("Mine({})", b.len()),
        Op::MineEmpty(n) => format!("MineEmpty({n})"),
        Op::Update => "Update".into(),
        Op::Reorg { depth, blocks, extra_empty } => format!("Reorg(depth {depth}, {} new + {extra_empty})", blocks.len()),
        Op::Reopen => "Reopen".into(),
      }).collect::<Vec<_>>()
    })
  });
  Ok(())
}

fn ops_strategy(profile: Profile, max_rounds: usize) -> BoxedStrategy<Vec<Op>> {
  let p = profile.clone();
  // a round: grow the chain, usually let the index catch up, reorganise,
  // update again; rounds are concatenated, so reorganisations are also
  // consecutive, nested and unobserved
  let grow = prop_oneof![
    2 => proptest::collection::vec(block_spec(&p), 1..3).prop_map(|b| vec![Op::Mine(b)]),
    3 => (1u8..8).prop_map(|n| vec![Op::MineEmpty(n)]),
    1 => (proptest::collection::vec(block_spec(&p), 1..3), 1u8..8).prop_map(|(b, n)| vec![Op::Mine(b), Op::MineEmpty(n)]),
    1 => Just(Vec::new()),
  ];
  let reorg = prop_oneof![
    4 => (1u8..5, proptest::collection::vec(block_spec(&p), 0..2), 0u8..3),
    3 => (1u8..12, proptest::collection::vec(block_spec(&p), 0..3), 0u8..3),
    2 => (8u8..32, proptest::collection::vec(block_spec(&p), 0..2), 0u8..3),
  ]
  .prop_map(|(depth, blocks, extra_empty)| Op::Reorg { depth, blocks, extra_empty });
  let round = (
    grow,
    proptest::bool::weighted(0.85),
    proptest::bool::weighted(0.1),
    proptest::option::weighted(0.75, reorg),
    proptest::bool::weighted(0.85),
  )
    .prop_map(|(mut ops, update_before, reopen, reorg, update_after)| {
      if update_before {
        ops.push(Op::Update);
      }
      if reopen {
        ops.push(Op::Reopen);
      }
      if let Some(r) = reorg {
        ops.push(r);
        if update_after {
          ops.push(Op::Update);
        }
      }
      ops
    });
  proptest::collection::vec(round, 1..max_rounds)
    .prop_map(|rounds| {
      let mut ops: Vec<Op> = rounds.into_iter().flatten().collect();
      ops.push(Op::Update);
      ops
    })
    .boxed()
}

fn case_strategy(max_ops: usize) -> BoxedStrategy<ReorgCase> {
  let mut profile = Profile::mixed();
  profile.txs = 0..3;
  profile.p_dup_coinbase = 0.0;
  (
    (any::<bool>(), proptest::bool::weighted(0.3), any::<bool>()),
    prop_oneof![3 => 1u8..6, 2 => Just(0u8)],
    prop_oneof![3 => 2u8..6, 2 => 6u8..=10],
    2u8..=3,
    proptest::bool::weighted(0.25),
    ops_strategy(profile, max_ops),
  )
    .prop_map(|((sats, addresses, runes), commit_interval, savepoint_interval, max_savepoints, integration_test, ops)| ReorgCase {
      sats,
      addresses,
      runes,
      commit_interval,
      savepoint_interval,
      max_savepoints,
      integration_test,
      ops,
    })
    .boxed()
}

pub fn c14(s: &mut Session) -> Meta {
  let t = s.tier();
  let max_ops = t.pick(5, 10);
  s.run_part(Part::new("reorg-histories", t.pick(600, 9_000), move || case_strategy(max_ops), c14_check).shrink_iters(300).timeout(400));
  let _ = BTreeMap::<u8, u8>::new();
  Meta {
    level: "exploration",
    rule: "Stateful histories of 1..4 (thorough ..9) rounds over a mock node, each round = grow the chain, usually Update, sometimes Reopen, usually a Reorg and an Update; operations: Mine(1..3 generated blocks with inscriptions/runes/transfers), MineEmpty(1..6), Update, Reorg(replace the last d blocks, d = 1..25 or 1..4, by a longer new branch with different block hashes and partly different content), Reopen; savepoint interval 2..10, max savepoints 2..3, commit interval 1..5 or 5000, both integration_test settings; consecutive and nested reorganisations, reorganisations below the savepoint interval and across savepoint creation. After every Update: either Ok and the masked H1 dump equals the dump of an index built from scratch on the node's current best chain, or the error is 'unrecoverable reorg' and status().unrecoverably_reorged is set (the history ends there). Any other error, a panic, a difference from the from-scratch index, or a livelock is a violation; livelock is decided deterministically by hook H3 (the same (height, depth) rollback performed 4 times within one update call while the node is frozen). Non-trivial = history in which a reorganisation whose fork point lies below the newest savepoint was recovered; distinct by case.",
    assumptions: &[
      "the mock node reports headers = 0, so savepoints are taken as if the index were at the chain tip (catch-up spacing cannot be reproduced)",
      "the new branch is always longer than the replaced one (most-work rule at equal difficulty)",
    ],
    required_labels: &["reorg", "recovered", "rollback-performed", "unrecoverable-reported", "fork-below-last-savepoint-recovered"],
  }
}
