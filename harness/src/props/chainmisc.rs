//! C15 (optional indexes do not change inscription/rune results),
//! C16 (indexing a valid chain never fails), C37 (events replay).

use {
  crate::{
    chain::{
      ChainSpec, build_chain,
      strategy::{Profile, chain_spec},
    },
    history::{self, Run, statistic},
    model::{inscriptions::RefInscriptions, runes::RefRunes},
    node::IndexConfig,
    props::{
      inscriptions::{self as pi},
      runes::{self as pr},
      sats::{ConfigSpec, ScheduleSpec, config_spec, genesis, schedule_spec},
    },
    runner::{CheckResult, Cx, Fail, Meta, Part, Session, fingerprint},
  },
  bitcoin::{Block, Network, OutPoint},
  ord::{InscriptionId, index::event::Event, verif::Dump},
  ordinals::{Charm, RuneId, SatPoint},
  proptest::prelude::*,
  serde::{Deserialize, Serialize},
  serde_json::json,
  std::{
    collections::{BTreeMap, BTreeSet},
    sync::RwLock,
  },
};

fn harness<E: std::fmt::Display>(what: &str) -> impl Fn(E) -> Fail + '_ {
  move |e| Fail::new("HARNESS-FAULT", format!("{what}: {e:#}"))
}

// ================================================================= C15

#[derive(Clone, Debug, Serialize, Deserialize)]
pub struct FlagsCase {
  pub chain: ChainSpec,
  pub commit_interval: u8,
  pub integration_test: bool,
}

const SAT_DERIVED: [Charm; 8] = [
  Charm::Coin,
  Charm::Uncommon,
  Charm::Rare,
  Charm::Epic,
  Charm::Legendary,
  Charm::Mythic,
  Charm::Nineball,
  Charm::Palindrome,
];

/// The inscription and rune content of a dump, without anything that only
/// exists with the sat index.
#[derive(Debug, PartialEq)]
struct Projection {
  entries: Vec<(u32, InscriptionId, i32, u32, u64, bool, Vec<u32>, u32, u16)>,
  satpoints: Vec<(u32, SatPoint)>,
  ids: Vec<(InscriptionId, u32)>,
  numbers: Vec<(i32, u32)>,
  children: Vec<(u32, u32)>,
  collections: Vec<(u32, u32)>,
  per_height: Vec<(u32, u32)>,
  gallery: Vec<u32>,
  home: Vec<(u32, InscriptionId)>,
  output_inscriptions: Vec<(OutPoint, Vec<(u32, u64)>)>,
  rune_entries: Vec<(RuneId, ord::RuneEntry)>,
  rune_balances: Vec<(OutPoint, Vec<(RuneId, u128)>)>,
  rune_names: Vec<(u128, RuneId)>,
  rune_inscriptions: Vec<(u32, RuneId)>,
  etchings: Vec<(bitcoin::Txid, u128)>,
  counters: Vec<(u64, u64)>,
}

fn project(dump: &Dump) -> Projection {
  let mut mask = 0u16;
  for charm in SAT_DERIVED {
    charm.set(&mut mask);
  }
  Projection {
    entries: dump
      .entries
      .iter()
      .map(|(seq, e)| {
        (
          *seq,
          e.id,
          e.inscription_number,
          e.height,
          e.fee,
          e.hidden,
          e.parents.clone(),
          e.timestamp,
          e.charms & !mask,
        )
      })
      .collect(),
    satpoints: dump.sequence_number_to_satpoint.clone(),
    ids: dump.id_to_sequence_number.clone(),
    numbers: dump.number_to_sequence_number.clone(),
    children: dump.children.clone(),
    collections: dump.collection_to_latest_child.clone(),
    per_height: dump.height_to_last_sequence_number.clone(),
    gallery: dump.gallery.clone(),
    home: dump.home_inscriptions.clone(),
    output_inscriptions: dump
      .utxos
      .iter()
      .filter_map(|(o, e)| {
        let list = e.inscriptions.clone().unwrap_or_default();
        (!list.is_empty()).then_some((*o, list))
      })
      .collect(),
    rune_entries: dump.rune_entries.clone(),
    rune_balances: dump.rune_balances.clone(),
    rune_names: dump.rune_to_id.clone(),
    rune_inscriptions: dump.sequence_number_to_rune_id.clone(),
    etchings: dump.txid_to_rune.clone(),
    counters: dump
      .statistics
      .iter()
      .filter(|(k, _)| {
        [
          history::STAT_BLESSED,
          history::STAT_CURSED,
          history::STAT_UNBOUND,
          history::STAT_RUNES,
          history::STAT_RESERVED_RUNES,
        ]
        .contains(k)
      })
      .cloned()
      .collect(),
  }
}

fn project_clone(p: &Projection) -> Projection {
  Projection {
    entries: p.entries.clone(),
    satpoints: p.satpoints.clone(),
    ids: p.ids.clone(),
    numbers: p.numbers.clone(),
    children: p.children.clone(),
    collections: p.collections.clone(),
    per_height: p.per_height.clone(),
    gallery: p.gallery.clone(),
    home: p.home.clone(),
    output_inscriptions: p.output_inscriptions.clone(),
    rune_entries: p.rune_entries.clone(),
    rune_balances: p.rune_balances.clone(),
    rune_names: p.rune_names.clone(),
    rune_inscriptions: p.rune_inscriptions.clone(),
    etchings: p.etchings.clone(),
    counters: p.counters.clone(),
  }
}

fn first_difference(a: &Projection, b: &Projection) -> String {
  macro_rules! field {
    ($f:ident) => {
      if a.$f != b.$f {
        let i = a.$f.iter().zip(b.$f.iter()).position(|(x, y)| x != y).unwrap_or(a.$f.len().min(b.$f.len()));
        return format!("{}: row {i}: {:?} vs {:?}", stringify!($f), a.$f.get(i), b.$f.get(i));
      }
    };
  }
  field!(entries);
  field!(satpoints);
  field!(ids);
  field!(numbers);
  field!(children);
  field!(collections);
  field!(per_height);
  field!(gallery);
  field!(home);
  field!(output_inscriptions);
  field!(rune_entries);
  field!(rune_balances);
  field!(rune_names);
  field!(rune_inscriptions);
  field!(etchings);
  field!(counters);
  "no difference".into()
}

fn c15_check(case: &FlagsCase, cx: &Cx) -> CheckResult {
  let network = Network::Regtest;
  let built = build_chain(network, &case.chain);
  let blocks = &built.blocks;
  let base = IndexConfig {
    sats: true,
    addresses: false,
    transactions: false,
    runes: true,
    no_inscriptions: false,
    commit_interval: if case.commit_interval == 0 { 5000 } else { usize::from(case.commit_interval) },
    savepoint_interval: 10,
    max_savepoints: 2,
    integration_test: case.integration_test,
    first_inscription_height: None,
  };
  let index = |config: &IndexConfig| -> Result<Dump, Fail> {
    let mut run = Run::new(network, config).map_err(harness("open"))?;
    run.set_chain(blocks);
    run.update().map_err(|e| {
      Fail::new(
        "c15|update-error",
        format!("Index::update failed with {config:?}: {e:#}"),
      )
    })?;
    run.dump().map_err(harness("dump"))
  };
  let reference = match index(&base) {
    Ok(d) => project(&d),
    Err(fail) => return cx.fail(fail),
  };
  // the other seven flag combinations
  let mut configs: Vec<(String, IndexConfig)> = Vec::new();
  for bits in 0..8u8 {
    let config = IndexConfig {
      sats: bits & 1 != 0,
      addresses: bits & 2 != 0,
      transactions: bits & 4 != 0,
      ..base.clone()
    };
    if config != base {
      configs.push((format!("sats={} addresses={} transactions={}", config.sats, config.addresses, config.transactions), config));
    }
  }
  // without a full UTXO index: inscriptions start after the prefix, inputs
  // created below that height are fetched from the node
  let fih = u32::from(case.chain.prefix) + 1;
  if case.chain.prefix > 0 {
    for transactions in [false, true] {
      configs.push((
        format!("non-full utxo index (first inscription height {fih}) transactions={transactions}"),
        IndexConfig {
          sats: false,
          addresses: false,
          transactions,
          first_inscription_height: Some(fih),
          ..base.clone()
        },
      ));
    }
  }
  for (name, config) in &configs {
    let dump = match index(config) {
      Ok(d) => d,
      Err(fail) => return cx.fail(fail),
    };
    let projection = project(&dump);
    // below the first inscription height no per-height counter is recorded
    // (as on mainnet below 767430): compare the counters from there on
    let mut expected = project_clone(&reference);
    if let Some(h) = config.first_inscription_height {
      expected.per_height.retain(|(height, _)| *height >= h);
    }
    if projection != expected {
      let difference = first_difference(&expected, &projection);
      let table = difference.split(':').next().unwrap_or("?").to_string();
      let kind = if config.first_inscription_height.is_some() { "non-full" } else { "flags" };
      return cx.fail(Fail::new(
        format!("c15|{kind}|{table}"),
        format!("inscription/rune results differ between the full sat index and [{name}]: {difference}"),
      ));
    }
  }
  // how many inputs are fetched from the node per block in the non-full runs
  let created_height: BTreeMap<bitcoin::Txid, u32> = blocks
    .iter()
    .enumerate()
    .flat_map(|(i, b)| b.txdata.iter().map(move |t| (t.compute_txid(), i as u32 + 1)))
    .collect();
  let mut max_fetched = 0;
  let mut zero_or_inscribed = false;
  for (i, block) in blocks.iter().enumerate() {
    let h = i as u32 + 1;
    if h < fih {
      continue;
    }
    let fetched: Vec<&bitcoin::TxIn> = block
      .txdata
      .iter()
      .skip(1)
      .flat_map(|t| t.input.iter())
      .filter(|input| created_height.get(&input.previous_output.txid).is_some_and(|c| *c < fih))
      .collect();
    max_fetched = max_fetched.max(fetched.len());
    if fetched.len() >= 2 && block.txdata.iter().skip(1).any(|t| !ord::ParsedEnvelope::from_transaction(t).is_empty()) {
      zero_or_inscribed = true;
    }
  }
  if max_fetched >= 2 {
    cx.label("two-inputs-fetched-from-node-in-a-block");
  }
  if case.chain.prefix > 0 {
    cx.label("non-full-utxo-index");
  }
  if built.stats.envelopes > 0 {
    cx.label("with-inscriptions");
  }
  if built.stats.runestones > 0 {
    cx.label("with-runes");
  }
  if !reference.entries.is_empty() {
    cx.label("inscriptions-indexed");
  }
  if !reference.rune_entries.is_empty() {
    cx.label("runes-indexed");
  }
  if max_fetched >= 2 && zero_or_inscribed {
    cx.nontrivial(fingerprint(&format!("{:?}", case.chain)));
  }
  cx.add_extra("configurations_compared", configs.len() as u64 + 1);
  cx.sample(3, || json!({"prefix": case.chain.prefix, "blocks": blocks.len(), "configs": configs.iter().map(|c| c.0.clone()).collect::<Vec<_>>(), "inscriptions": reference.entries.len(), "runes": reference.rune_entries.len()}));
  Ok(())
}

pub fn c15(s: &mut Session) -> Meta {
  let t = s.tier();
  let mut profile = Profile::mixed();
  profile.prefix = vec![0, 3, 5, 7, 8];
  profile.blocks = 2..10;
  if t == crate::runner::Tier::Thorough {
    profile.blocks = 2..25;
    profile.txs = 0..7;
  }
  let strategy = move || {
    (
      chain_spec(&profile),
      prop_oneof![4 => 1u8..6, 1 => Just(0u8)],
      proptest::bool::weighted(0.7),
    )
      .prop_map(|(chain, commit_interval, integration_test)| FlagsCase {
        chain,
        commit_interval,
        integration_test,
      })
      .boxed()
  };
  s.run_part(Part::new("flag-combinations", t.pick(200, 3_000), strategy, c15_check).shrink_iters(150).timeout(400));
  Meta {
    level: "exploration",
    rule: "One mixed-profile chain (inscriptions with pointers/parents/curses, runes, zero-value inputs, same-block spends) is indexed under all 8 combinations of {sat, address, transaction} index (runes on) and, when it has an empty-block prefix of k blocks, twice more as a NON-full UTXO index (hook H4: first inscription height k+1, no sat/address index), where every input created below k+1 is fetched from the node in batches. Each dump is projected onto inscription and rune content (entries without sat and sat-derived charms, satpoints, ids, numbers, parents/children, collections, per-height counters, gallery, home, per-output inscription lists, rune entries, balances, names, etching tables, blessed/cursed/unbound/runes counters) and must equal the projection of the full sat index. Non-trivial = chain where one block has >= 2 inputs fetched from the node and reveals inscriptions; distinct by chain spec.",
    assumptions: &["hook H4 overrides Settings::first_inscription_height for one index path so that a regtest index can be non-full; blocks below that height contain no envelopes or runestones (empty prefix)"],
    required_labels: &["two-inputs-fetched-from-node-in-a-block", "non-full-utxo-index", "inscriptions-indexed", "runes-indexed"],
  }
}

// ================================================================= C16

#[derive(Clone, Debug, Serialize, Deserialize)]
pub struct NeverFailsCase {
  pub chain: ChainSpec,
  pub config: ConfigSpec,
  pub non_full: bool,
  pub schedule: ScheduleSpec,
}

static EXCLUSIVE: RwLock<()> = RwLock::new(());

fn c16_run(case: &NeverFailsCase, cx: &Cx) -> Result<(crate::chain::BuildStats, usize, usize), Fail> {
  let network = Network::Regtest;
  let built = build_chain(network, &case.chain);
  let blocks = &built.blocks;
  let mut config = case.config.config();
  if case.non_full && case.chain.prefix > 0 {
    config.sats = false;
    config.addresses = false;
    config.no_inscriptions = false;
    config.first_inscription_height = Some(u32::from(case.chain.prefix) + 1);
  }
  let mut run = Run::new(network, &config).map_err(harness("open"))?;
  for (stop, reopen) in case.schedule.stops(blocks.len()) {
    run.set_chain(&blocks[..stop]);
    if let Err(err) = run.update() {
      let text = format!("{err:#}");
      let class: String = text.split([':', '`']).next().unwrap_or("").chars().take(50).collect();
      cx.fail(Fail::new(
        format!("c16|update-error|{}", class.trim().replace(' ', "-")),
        format!("Index::update returned an error on a valid chain after {stop} blocks with {config:?}: {text}"),
      ))?;
      return Ok((built.stats.clone(), 0, 0));
    }
    if reopen {
      run
        .reopen()
        .map_err(|e| Fail::new("c16|reopen", format!("reopen failed: {e:#}")))?;
    }
  }
  // follow-up audits so that "did not crash" is not the only signal
  let dump = run.dump().map_err(harness("dump"))?;
  let mut inscriptions = 0;
  if !config.no_inscriptions && config.first_inscription_height.is_none() {
    let mut model = RefInscriptions::new(0);
    model.apply_block(&genesis(network));
    for b in blocks {
      model.apply_block(b);
    }
    inscriptions = model.list.len();
    let obs = pi::Obs {
      stop: blocks.len(),
      network,
      blocks,
      model: &model,
      dump: &dump,
      run: &run,
      sat_index: config.sats,
      jubilee: 110,
    };
    pi::c04_oracle(&obs, cx)?;
  }
  let mut runes = 0;
  if config.runes {
    let mut model = RefRunes::new(network, 0);
    model.apply_block(&genesis(network));
    for b in blocks {
      model.apply_block(b);
    }
    runes = model.entries.len();
    let obs = pr::Obs {
      stop: blocks.len(),
      blocks,
      model: &model,
      dump: &dump,
      run: &run,
    };
    pr::c08_oracle(&obs, cx)?;
  }
  Ok((built.stats.clone(), inscriptions, runes))
}

fn c16_check(case: &NeverFailsCase, cx: &Cx) -> CheckResult {
  let before = crate::runner::background_panic_count();
  let result = {
    let _shared = EXCLUSIVE.read().unwrap();
    c16_run(case, cx)
  };
  let (stats, inscriptions, runes) = result?;
  if crate::runner::background_panic_count() != before {
    // some background thread (block fetcher, transaction fetcher) panicked
    // while this case ran: re-run it alone to attribute the panic
    let _alone = EXCLUSIVE.write().unwrap();
    let before = crate::runner::background_panic_count();
    let silent = crate::runner::Cx {
      stats: cx.stats,
      counting: false,
      known: cx.known,
      property: cx.property,
      tier: cx.tier,
      strict: cx.strict,
    };
    let _ = c16_run(case, &silent);
    if crate::runner::background_panic_count() != before {
      let panics = crate::runner::background_panics();
      let last = panics.last().cloned();
      if let Some(record) = last
        && crate::runner::panic_is_ord(&record)
      {
        return cx.fail(Fail::new(
          format!("c16|background-panic|{}", crate::runner::panic_site(&record)),
          format!("a background thread of the indexer panicked at {}: {}", record.location, record.message),
        ));
      }
    }
  }
  if stats.envelopes > 0 {
    cx.label("envelope-parsed");
  }
  if stats.runestones > 0 {
    cx.label("runestone");
  }
  if case.non_full && case.chain.prefix > 0 {
    cx.label("non-full-index");
  }
  let c = &case.config;
  cx.label(&format!(
    "flags-{}{}{}{}{}",
    u8::from(c.sats),
    u8::from(c.addresses),
    u8::from(c.transactions),
    u8::from(c.runes),
    u8::from(c.no_inscriptions)
  ));
  if inscriptions > 0 && runes > 0 {
    cx.label("inscriptions-and-runes");
    cx.nontrivial(fingerprint(&format!("{:?}", case.chain)));
  }
  cx.sample(3, || json!({"config": format!("{:?}", case.config), "blocks": case.chain.blocks.len(), "txs": stats.txs, "envelopes": stats.envelopes, "runestones": stats.runestones}));
  Ok(())
}

pub fn c16(s: &mut Session) -> Meta {
  let t = s.tier();
  let mut profile = Profile::adversarial();
  profile.prefix = vec![0, 0, 6, 8];
  if t == crate::runner::Tier::Thorough {
    profile.blocks = 2..30;
    profile.txs = 0..8;
  }
  let strategy = move || {
    (
      chain_spec(&profile),
      config_spec(None, None),
      proptest::bool::weighted(0.2),
      schedule_spec(2),
    )
      .prop_map(|(chain, config, non_full, schedule)| NeverFailsCase {
        chain,
        config,
        non_full,
        schedule,
      })
      .boxed()
  };
  s.run_part(Part::new("never-fails", t.pick(1000, 20_000), strategy, c16_check).shrink_iters(250).timeout(300));
  Meta {
    level: "exploration",
    rule: "Adversarial-profile chains, valid by construction: raw witness stacks assembled from envelope fragments, truncated pushes, pushnum opcodes and random bytes (30% of inputs), mutated and raw runestone payloads with huge varints and every flaw kind (30%), raw/empty/odd output scripts, 0..6 inputs and 0..8 outputs, values from 0 to the whole supply, etchings/mints/edicts with u128::MAX amounts, same-block spends, all 32 flag combinations incl. --no-index-inscriptions, plus the non-full UTXO index (H4), 1..3 update calls with reopen. Oracle: every Index::update returns Ok, no panic on the calling thread or (re-run in isolation to attribute) in the indexer's background threads, and the C04 inscription audit and the C08 rune-supply audit hold on the final state. Non-trivial = chain that produced both inscriptions and runes; distinct by chain spec.",
    assumptions: &["validity is by construction (no double spends, outputs <= inputs, coinbase <= subsidy + fees); script validity is not modelled, ord never evaluates scripts", "the pure parsers are additionally fuzzed byte-wise by C25/C27/C28"],
    required_labels: &["envelope-parsed", "runestone", "non-full-index", "inscriptions-and-runes"],
  }
}

// ================================================================= C37

#[derive(Clone, Debug, Serialize, Deserialize)]
pub struct EventsCase {
  pub chain: ChainSpec,
  pub config: ConfigSpec,
  pub schedule: ScheduleSpec,
}

fn c37_check(case: &EventsCase, cx: &Cx) -> CheckResult {
  let network = Network::Regtest;
  let built = build_chain(network, &case.chain);
  let blocks = &built.blocks;
  let mut config = case.config.config();
  config.runes = true;
  config.no_inscriptions = false;
  let mut run = Run::with_events(network, &config).map_err(harness("open"))?;
  for (stop, _) in case.schedule.stops(blocks.len()) {
    run.set_chain(&blocks[..stop]);
    if let Err(err) = run.update() {
      return cx.fail(Fail::new("c37|update-error", format!("Index::update failed: {err:#}")));
    }
  }
  let dump = run.dump().map_err(harness("dump"))?;
  let events = run.finish_events();

  // ---- fold the stream
  let mut location: BTreeMap<InscriptionId, Option<SatPoint>> = BTreeMap::new();
  let mut created: BTreeMap<InscriptionId, (u16, Vec<InscriptionId>, u32, u32)> = BTreeMap::new();
  let mut etched: BTreeMap<RuneId, (bitcoin::Txid, u32)> = BTreeMap::new();
  let mut mints: BTreeMap<RuneId, u128> = BTreeMap::new();
  let mut burned: BTreeMap<RuneId, u128> = BTreeMap::new();
  let mut balances: BTreeMap<OutPoint, BTreeMap<RuneId, u128>> = BTreeMap::new();
  let mut kinds: BTreeSet<&'static str> = BTreeSet::new();
  let mut last_height = 0u32;
  for event in &events {
    let height = match event {
      Event::InscriptionCreated { block_height, .. }
      | Event::InscriptionTransferred { block_height, .. }
      | Event::RuneBurned { block_height, .. }
      | Event::RuneEtched { block_height, .. }
      | Event::RuneMinted { block_height, .. }
      | Event::RuneTransferred { block_height, .. } => *block_height,
    };
    if height < last_height {
      return cx.fail(Fail::new("c37|height-order", format!("event at height {height} after an event at height {last_height}")));
    }
    last_height = height;
    match event {
      Event::InscriptionCreated {
        block_height,
        charms,
        inscription_id,
        location: l,
        parent_inscription_ids,
        sequence_number,
      } => {
        kinds.insert("created");
        if created
          .insert(*inscription_id, (*charms, parent_inscription_ids.clone(), *sequence_number, *block_height))
          .is_some()
        {
          return cx.fail(Fail::new("c37|created-twice", format!("{inscription_id} created twice")));
        }
        location.insert(*inscription_id, *l);
      }
      Event::InscriptionTransferred {
        inscription_id,
        new_location,
        old_location,
        ..
      } => {
        kinds.insert("transferred");
        match location.get(inscription_id) {
          None => return cx.fail(Fail::new("c37|transfer-before-creation", format!("{inscription_id} transferred before it was created"))),
          Some(previous) => {
            if *previous != Some(*old_location) {
              return cx.fail(Fail::new(
                "c37|old-location",
                format!("{inscription_id} transferred from {old_location} but the stream had it at {previous:?}"),
              ));
            }
          }
        }
        location.insert(*inscription_id, Some(*new_location));
      }
      Event::RuneEtched { rune_id, txid, block_height } => {
        kinds.insert("etched");
        etched.insert(*rune_id, (*txid, *block_height));
      }
      Event::RuneMinted { rune_id, .. } => {
        kinds.insert("minted");
        *mints.entry(*rune_id).or_default() += 1;
      }
      Event::RuneBurned { rune_id, amount, .. } => {
        kinds.insert("burned");
        *burned.entry(*rune_id).or_default() += amount;
      }
      Event::RuneTransferred { rune_id, amount, outpoint, .. } => {
        kinds.insert("rune-transferred");
        *balances.entry(*outpoint).or_default().entry(*rune_id).or_default() += amount;
      }
    }
  }
  // outputs spent later in the chain no longer hold runes
  for block in blocks {
    for tx in &block.txdata {
      for input in &tx.input {
        balances.remove(&input.previous_output);
      }
    }
  }

  // ---- compare with the tables
  let satpoints: BTreeMap<u32, SatPoint> = dump.sequence_number_to_satpoint.iter().cloned().collect();
  if created.len() != dump.entries.len() {
    return cx.fail(Fail::new(
      "c37|created-count",
      format!("{} creation events for {} inscriptions", created.len(), dump.entries.len()),
    ));
  }
  let mut burned_mask = 0u16;
  Charm::Burned.set(&mut burned_mask);
  for (seq, entry) in &dump.entries {
    let Some((charms, parents, event_seq, height)) = created.get(&entry.id) else {
      return cx.fail(Fail::new("c37|no-creation-event", format!("no creation event for {}", entry.id)));
    };
    if event_seq != seq || *height != entry.height {
      return cx.fail(Fail::new("c37|creation-sequence", format!("{}: event says sequence {event_seq} height {height}, entry {seq} / {}", entry.id, entry.height)));
    }
    if charms & !burned_mask != entry.charms & !burned_mask || (charms & burned_mask != 0 && entry.charms & burned_mask == 0) {
      return cx.fail(Fail::new(
        "c37|charms",
        format!("{}: charms at creation {:#b} in the event, {:#b} in the entry", entry.id, charms, entry.charms),
      ));
    }
    let entry_parents: Vec<InscriptionId> = entry
      .parents
      .iter()
      .map(|p| dump.entries[*p as usize].1.id)
      .collect();
    if &entry_parents != parents {
      return cx.fail(Fail::new("c37|parents", format!("{}: event parents {parents:?}, entry parents {entry_parents:?}", entry.id)));
    }
    let replayed = location[&entry.id];
    let actual = satpoints[seq];
    let matches = match replayed {
      None => actual.outpoint == ord::unbound_outpoint(),
      Some(l) => l == actual,
    };
    if !matches {
      return cx.fail(Fail::new(
        "c37|location",
        format!("{}: replaying the events puts it at {replayed:?}, the index at {actual}", entry.id),
      ));
    }
  }
  let index_runes: BTreeMap<RuneId, &ord::RuneEntry> = dump.rune_entries.iter().map(|(id, e)| (*id, e)).collect();
  if etched.keys().collect::<Vec<_>>() != index_runes.keys().collect::<Vec<_>>() {
    return cx.fail(Fail::new(
      "c37|etched",
      format!("etched events for {:?}, rune entries {:?}", etched.keys().collect::<Vec<_>>(), index_runes.keys().collect::<Vec<_>>()),
    ));
  }
  for (id, entry) in &index_runes {
    if etched[id].0 != entry.etching {
      return cx.fail(Fail::new("c37|etching-txid", format!("rune {id}: event txid {}, entry {}", etched[id].0, entry.etching)));
    }
    if mints.get(id).copied().unwrap_or(0) != entry.mints {
      return cx.fail(Fail::new("c37|mints", format!("rune {id}: {} mint events, entry has {} mints", mints.get(id).copied().unwrap_or(0), entry.mints)));
    }
    if burned.get(id).copied().unwrap_or(0) != entry.burned {
      return cx.fail(Fail::new("c37|burned", format!("rune {id}: burned events add up to {}, entry has {}", burned.get(id).copied().unwrap_or(0), entry.burned)));
    }
  }
  let index_balances: BTreeMap<OutPoint, BTreeMap<RuneId, u128>> = dump
    .rune_balances
    .iter()
    .map(|(o, l)| (*o, l.iter().cloned().collect()))
    .collect();
  if balances != index_balances {
    let outpoint = balances.keys().chain(index_balances.keys()).find(|o| balances.get(o) != index_balances.get(o)).unwrap();
    return cx.fail(Fail::new(
      "c37|balances",
      format!("output {outpoint}: events give {:?}, index {:?}", balances.get(outpoint), index_balances.get(outpoint)),
    ));
  }
  for kind in &kinds {
    cx.label(&format!("event-{kind}"));
  }
  if kinds.len() == 6 {
    cx.label("all-six-kinds");
    cx.nontrivial(fingerprint(&format!("{:?}", case.chain)));
  }
  let _ = statistic;
  cx.add_extra("events_replayed", events.len() as u64);
  cx.sample(3, || json!({"events": events.len(), "kinds": kinds, "first": events.iter().take(3).map(|e| format!("{e:?}").chars().take(160).collect::<String>()).collect::<Vec<_>>() }));
  Ok(())
}

pub fn c37(s: &mut Session) -> Meta {
  let t = s.tier();
  let mut profile = Profile::mixed();
  profile.rune_heavy = true;
  profile.inscription_heavy = true;
  profile.p_runestone = 0.5;
  profile.p_envelopes = 0.4;
  profile.prefix = vec![0, 6, 8];
  if t == crate::runner::Tier::Thorough {
    profile.blocks = 3..30;
    profile.txs = 0..7;
  }
  let strategy = move || {
    (chain_spec(&profile), config_spec(None, None), schedule_spec(3))
      .prop_map(|(chain, config, schedule)| EventsCase {
        chain,
        config,
        schedule,
      })
      .boxed()
  };
  s.run_part(Part::new("replay", t.pick(800, 16_000), strategy, c37_check).shrink_iters(250).timeout(300));
  Meta {
    level: "exploration",
    rule: "Mixed-profile chains (inscription and rune heavy) are indexed with an event receiver attached (Index::open_with_event_sender, channel drained by a harness thread), 1..4 update calls. The event stream is folded: inscription locations (created -> transferred, each transfer's old location must be the replayed location), charms and parents at creation, sequence numbers; rune etchings, mint counts, burned totals, per-output balances (a transfer event adds to its output; spending is taken from the chain). The result must equal the index tables: satpoints (unbound = no location), entry charms modulo a later burn, entry parents, rune entries' etching txid, mints, burned, and the balance table. Events inside one transaction are folded as a set. Non-trivial = history with all six event kinds; distinct by chain spec.",
    assumptions: &["events of one transaction may arrive in any order (ord iterates HashMaps)"],
    required_labels: &["event-created", "event-transferred", "event-etched", "event-minted", "event-burned", "event-rune-transferred", "all-six-kinds"],
  }
}

#[allow(dead_code)]
fn _unused(_: &[Block]) {}
