//! C31 text parsers (total, never accept by overflow) and C34 rune amounts.
//!
//! Oracle: for every parser a reference evaluator of the notation's grammar
//! with exact (big integer) arithmetic. One direction only, as the property
//! states it: if ord returns `Ok(v)`, the reference must accept the string
//! and denote `v`; a panic is always a violation; `Err` is always fine.

use {
  crate::{
    props::pure_ordinals::{reference_rune_name, reference_rune_value},
    runner::{CheckResult, Cx, Fail, Meta, Part, Session, fingerprint},
  },
  num_bigint::BigUint,
  ord::{InscriptionId, Object, decimal::Decimal, outgoing::Outgoing},
  ordinals::{Pile, Rune, RuneId, Sat, SatPoint, SpacedRune},
  proptest::prelude::*,
  serde::{Deserialize, Serialize},
  serde_json::json,
  std::str::FromStr,
};

const HALVING: u64 = 210_000;
const LAST_SUBSIDY_HEIGHT: u64 = 33 * HALVING;

fn big(n: u128) -> BigUint {
  BigUint::from(n)
}

fn ref_subsidy(h: u64) -> u64 {
  let epoch = h / HALVING;
  if epoch < 33 { 5_000_000_000u64 >> epoch } else { 0 }
}

fn ref_starting_sat(h: u64) -> u64 {
  let mut total = 0u64;
  let mut epoch = 0u64;
  while epoch < 33 && epoch * HALVING < h {
    let blocks = (h - epoch * HALVING).min(HALVING);
    total += blocks * (5_000_000_000u64 >> epoch);
    epoch += 1;
  }
  total
}

/// Unsigned decimal numeral as Rust's integer parsers read it: an optional
/// `+` and one or more ASCII digits. Exact value.
fn numeral(s: &str) -> Option<BigUint> {
  let digits = s.strip_prefix('+').unwrap_or(s);
  if digits.is_empty() || !digits.bytes().all(|b| b.is_ascii_digit()) {
    return None;
  }
  BigUint::parse_bytes(digits.as_bytes(), 10)
}

fn small(n: &BigUint) -> Option<u64> {
  u64::try_from(n).ok()
}

// ------------------------------------------------------------ sat notations

#[derive(Debug, Clone, PartialEq)]
enum SatDenotation {
  Exact(u64),
  /// percentile: exact value is num/den, accepted with a tolerance of one sat
  Rational(BigUint, BigUint),
}

fn ref_sat_name(s: &str) -> Option<u64> {
  if s.is_empty() || !s.bytes().all(|b| b.is_ascii_lowercase()) {
    return None;
  }
  let mut x = BigUint::from(0u8);
  for b in s.bytes() {
    x = x * 26u8 + u32::from(b - b'a' + 1);
  }
  let x = small(&x)?;
  if x == 0 || x > Sat::SUPPLY {
    return None;
  }
  Some(Sat::SUPPLY - x)
}

fn ref_sat_degree(s: &str) -> Option<u64> {
  let (cycle, rest) = s.split_once('°')?;
  let (minute, rest) = rest.split_once('′')?;
  let (second, rest) = rest.split_once('″')?;
  let third = if rest.is_empty() {
    BigUint::from(0u8)
  } else {
    numeral(rest.strip_suffix('‴')?)?
  };
  let cycle = numeral(cycle)?;
  let minute = small(&numeral(minute)?)?;
  let second = small(&numeral(second)?)?;
  if minute >= HALVING || second >= 2016 {
    return None;
  }
  // beyond the last subsidy-bearing cycle no block has a subsidy
  let cycle = small(&cycle)?;
  if cycle > LAST_SUBSIDY_HEIGHT / (6 * HALVING) {
    return None;
  }
  for epoch_in_cycle in 0..6 {
    let h = (cycle * 6 + epoch_in_cycle) * HALVING + minute;
    if h % 2016 == second {
      let third = small(&third)?;
      if third < ref_subsidy(h) {
        return Some(ref_starting_sat(h) + third);
      }
      return None;
    }
  }
  None
}

fn ref_sat_decimal(s: &str) -> Option<u64> {
  let (height, offset) = s.split_once('.')?;
  let height = small(&numeral(height)?)?;
  let offset = small(&numeral(offset)?)?;
  if height >= LAST_SUBSIDY_HEIGHT || offset >= ref_subsidy(height) {
    return None;
  }
  Some(ref_starting_sat(height) + offset)
}

/// Finite decimal float numeral (Rust's `f64::from_str` grammar without the
/// inf/nan words) as an exact rational num/den.
fn ref_float(s: &str) -> Option<(bool, BigUint, BigUint)> {
  let (negative, rest) = match s.as_bytes().first()? {
    b'-' => (true, &s[1..]),
    b'+' => (false, &s[1..]),
    _ => (false, s),
  };
  let (mantissa, exponent) = match rest.find(['e', 'E']) {
    Some(i) => (&rest[..i], Some(&rest[i + 1..])),
    None => (rest, None),
  };
  let (int, frac) = match mantissa.split_once('.') {
    Some((int, frac)) => (int, frac),
    None => (mantissa, ""),
  };
  if int.is_empty() && frac.is_empty() {
    return None;
  }
  if !int.bytes().all(|b| b.is_ascii_digit()) || !frac.bytes().all(|b| b.is_ascii_digit()) {
    return None;
  }
  let exponent: i64 = match exponent {
    None => 0,
    Some(e) => {
      let (neg, digits) = match e.as_bytes().first()? {
        b'-' => (true, &e[1..]),
        b'+' => (false, &e[1..]),
        _ => (false, e),
      };
      if digits.is_empty() || !digits.bytes().all(|b| b.is_ascii_digit()) {
        return None;
      }
      // exponents of absurd size: saturate (the value is 0 or astronomically large)
      let magnitude = digits.trim_start_matches('0');
      let magnitude: i64 = if magnitude.len() > 6 {
        1_000_000
      } else {
        magnitude.parse().unwrap_or(0)
      };
      if neg { -magnitude } else { magnitude }
    }
  };
  let digits = format!("{int}{frac}");
  let m = BigUint::parse_bytes(digits.as_bytes(), 10)?;
  let scale = exponent - frac.len() as i64;
  if m == BigUint::from(0u8) {
    return Some((negative, m, BigUint::from(1u8)));
  }
  if scale.abs() > 5000 {
    // not representable here; treat as "cannot judge" by the caller
    return if scale > 0 {
      Some((negative, BigUint::from(10u8).pow(5000), BigUint::from(1u8)))
    } else {
      Some((negative, BigUint::from(1u8), BigUint::from(10u8).pow(5000)))
    };
  }
  if scale >= 0 {
    Some((
      negative,
      m * BigUint::from(10u8).pow(scale as u32),
      BigUint::from(1u8),
    ))
  } else {
    Some((negative, m, BigUint::from(10u8).pow((-scale) as u32)))
  }
}

fn ref_sat_percentile(s: &str) -> Option<SatDenotation> {
  let number = s.strip_suffix('%')?;
  let (negative, num, den) = ref_float(number)?;
  // value = num/den / 100 * LAST
  let (num, den) = (num * Sat::LAST.0, den * 100u8);
  if negative && num != BigUint::from(0u8) {
    // a negative percentage denotes a sat only in the sense in which
    // 100.0000000000000001% denotes the last sat: its position is within
    // one sat of a valid one (ord reads `-1E-400%` as -0.0)
    return (num <= den).then_some(SatDenotation::Rational(BigUint::from(0u8), BigUint::from(1u8)));
  }
  Some(SatDenotation::Rational(num, den))
}

fn ref_sat_integer(s: &str) -> Option<u64> {
  let n = small(&numeral(s)?)?;
  (n <= Sat::LAST.0).then_some(n)
}

fn ref_sat(s: &str) -> Option<SatDenotation> {
  ref_sat_name(s)
    .or_else(|| ref_sat_degree(s))
    .or_else(|| ref_sat_decimal(s))
    .or_else(|| ref_sat_integer(s))
    .map(SatDenotation::Exact)
    .or_else(|| ref_sat_percentile(s))
}

fn judge_sat(input: &str, got: u64) -> Result<(), Fail> {
  match ref_sat(input) {
    None => Err(Fail::new(
      format!("sat|accepts|{}", sat_class(input)),
      format!("`{input}` parses to Sat({got}) but denotes no sat in any notation"),
    )),
    Some(SatDenotation::Exact(n)) => {
      if n == got {
        Ok(())
      } else {
        Err(Fail::new(
          format!("sat|wrong-value|{}", sat_class(input)),
          format!("`{input}` parses to Sat({got}) but denotes Sat({n})"),
        ))
      }
    }
    Some(SatDenotation::Rational(num, den)) => {
      // |got - num/den| <= 1  and  got <= LAST
      let g = BigUint::from(got) * &den;
      let tolerance = den.clone();
      let diff = if g > num { &g - &num } else { &num - &g };
      if diff <= tolerance && got <= Sat::LAST.0 {
        Ok(())
      } else {
        Err(Fail::new(
          "sat|wrong-value|percentile",
          format!("`{input}` parses to Sat({got}) which is not within one sat of the denoted position"),
        ))
      }
    }
  }
}

fn sat_class(input: &str) -> &'static str {
  if input.chars().any(|c| c.is_ascii_lowercase()) {
    "name"
  } else if input.contains('°') {
    "degree"
  } else if input.contains('%') {
    "percentile"
  } else if input.contains('.') {
    "decimal"
  } else {
    "integer"
  }
}

// ---------------------------------------------------------------- runes

fn ref_spaced_rune(s: &str) -> Option<(u128, u32)> {
  let mut letters = String::new();
  let mut spacers = 0u64;
  for c in s.chars() {
    match c {
      'A'..='Z' => letters.push(c),
      '.' | '•' => {
        if letters.is_empty() {
          return None;
        }
        let bit = letters.len() - 1;
        if bit >= 32 || spacers & (1 << bit) != 0 {
          return None;
        }
        spacers |= 1 << bit;
      }
      _ => return None,
    }
  }
  if letters.is_empty() {
    return None;
  }
  // trailing spacer
  if spacers >> (letters.len() - 1) != 0 {
    return None;
  }
  Some((reference_rune_value(&letters)?, spacers as u32))
}

fn ref_rune_id(s: &str) -> Option<(u64, u32)> {
  let (block, tx) = s.split_once(':')?;
  let block = small(&numeral(block)?)?;
  let tx = u32::try_from(small(&numeral(tx)?)?).ok()?;
  Some((block, tx))
}

// -------------------------------------------------------------- decimals

/// Canonical (value, scale) of a decimal numeral: scale = number of
/// fractional digits without trailing zeros.
fn ref_decimal(s: &str) -> Option<(BigUint, usize)> {
  let (int, frac) = match s.split_once('.') {
    Some((int, frac)) => (int, frac),
    None => (s, ""),
  };
  let has_point = s.contains('.');
  if int.is_empty() && frac.is_empty() {
    return None;
  }
  if int.is_empty() && !has_point {
    return None;
  }
  let int_digits = int.strip_prefix('+').unwrap_or(int);
  if !int_digits.bytes().all(|b| b.is_ascii_digit()) || (int_digits.is_empty() && !int.is_empty())
  {
    return None;
  }
  if !frac.bytes().all(|b| b.is_ascii_digit()) {
    return None;
  }
  let frac = frac.trim_end_matches('0');
  let digits = format!("{int_digits}{frac}");
  let value = if digits.is_empty() {
    BigUint::from(0u8)
  } else {
    BigUint::parse_bytes(digits.as_bytes(), 10)?
  };
  Some((value, frac.len()))
}

fn judge_decimal(input: &str, got: Decimal) -> Result<(), Fail> {
  match ref_decimal(input) {
    None => Err(Fail::new(
      "decimal|accepts",
      format!("`{input}` parses to {got:?} but is not a decimal numeral"),
    )),
    Some((value, scale)) => {
      if BigUint::from(got.value) == value && usize::from(got.scale) == scale {
        Ok(())
      } else {
        Err(Fail::new(
          "decimal|wrong-value",
          format!("`{input}` parses to {got:?} but denotes value {value} scale {scale}"),
        ))
      }
    }
  }
}

// ------------------------------------------------- outpoints, ids, points

fn ref_txid(s: &str) -> Option<[u8; 32]> {
  if s.len() != 64 || !s.bytes().all(|b| b.is_ascii_hexdigit()) {
    return None;
  }
  let mut bytes = [0u8; 32];
  hex::decode_to_slice(s, &mut bytes).ok()?;
  bytes.reverse();
  Some(bytes)
}

fn ref_outpoint(s: &str) -> Option<([u8; 32], u32)> {
  let (txid, vout) = s.split_once(':')?;
  Some((
    ref_txid(txid)?,
    u32::try_from(small(&numeral(vout)?)?).ok()?,
  ))
}

fn ref_satpoint(s: &str) -> Option<([u8; 32], u32, u64)> {
  let (outpoint, offset) = s.rsplit_once(':')?;
  let (txid, vout) = ref_outpoint(outpoint)?;
  Some((txid, vout, small(&numeral(offset)?)?))
}

fn ref_inscription_id(s: &str) -> Option<([u8; 32], u32)> {
  if !s.is_ascii() || s.len() < 66 {
    return None;
  }
  let txid = ref_txid(&s[..64])?;
  if s.as_bytes()[64] != b'i' {
    return None;
  }
  Some((txid, u32::try_from(small(&numeral(&s[65..])?)?).ok()?))
}

fn txid_bytes(txid: bitcoin::Txid) -> [u8; 32] {
  use bitcoin::hashes::Hash;
  txid.to_byte_array()
}

fn judge_satpoint(input: &str, got: SatPoint) -> Result<(), Fail> {
  let expected = ref_satpoint(input);
  let actual = (
    txid_bytes(got.outpoint.txid),
    got.outpoint.vout,
    got.offset,
  );
  if expected == Some(actual) {
    Ok(())
  } else {
    Err(Fail::new(
      "satpoint|wrong-value",
      format!("`{input}` parses to {got} but denotes {expected:?}"),
    ))
  }
}

fn judge_inscription_id(input: &str, got: InscriptionId) -> Result<(), Fail> {
  let expected = ref_inscription_id(input);
  if expected == Some((txid_bytes(got.txid), got.index)) {
    Ok(())
  } else {
    Err(Fail::new(
      "inscription-id|wrong-value",
      format!("`{input}` parses to {got} but denotes {expected:?}"),
    ))
  }
}

fn judge_spaced_rune(input: &str, got: SpacedRune) -> Result<(), Fail> {
  let expected = ref_spaced_rune(input);
  if expected == Some((got.rune.0, got.spacers)) {
    Ok(())
  } else {
    Err(Fail::new(
      "spaced-rune|wrong-value",
      format!(
        "`{input}` parses to SpacedRune({}, {:#x}) but denotes {expected:?}",
        got.rune.0, got.spacers
      ),
    ))
  }
}

// -------------------------------------------------------------- amounts

fn ref_amount_sats(s: &str) -> Option<u64> {
  // <number> [space] <unit>[s]
  const UNITS: &[(&str, i32)] = &[
    ("satoshi", 0),
    ("msat", -3),
    ("sat", 0),
    ("cbtc", 6),
    ("mbtc", 5),
    ("ubtc", 2),
    ("nbtc", -1),
    ("pbtc", -4),
    ("btc", 8),
    ("bit", 2),
  ];
  let body = s;
  for (unit, exp) in UNITS {
    for suffix in [format!("{unit}s"), unit.to_string()] {
      if let Some(number) = body.strip_suffix(suffix.as_str()) {
        let number = number.strip_suffix(' ').unwrap_or(number);
        let (value, scale) = ref_decimal(number)?;
        if number.starts_with('+') {
          return None;
        }
        // value * 10^(exp - scale) must be an integer that fits u64
        let shift = i64::from(*exp) - scale as i64;
        let sats = if shift >= 0 {
          value * BigUint::from(10u8).pow(shift as u32)
        } else {
          let d = BigUint::from(10u8).pow((-shift) as u32);
          if &value % &d != BigUint::from(0u8) {
            return None;
          }
          value / d
        };
        return small(&sats);
      }
    }
  }
  None
}

// ------------------------------------------------------------- the check

#[derive(Clone, Debug, Serialize, Deserialize)]
pub struct TextCase {
  pub input: String,
}

fn run_parser<T, E>(
  name: &str,
  input: &str,
  parse: impl FnOnce(&str) -> Result<T, E>,
  judge: impl FnOnce(&str, T) -> Result<(), Fail>,
  cx: &Cx,
  accepted: &mut u32,
) -> CheckResult {
  match crate::runner::catch(|| parse(input)) {
    Err(record) => cx.fail(Fail::new(
      format!("{name}|panic|{}", crate::runner::panic_site(&record)),
      format!(
        "{name}: parsing `{input}` panics at {}: {}",
        record.location, record.message
      ),
    )),
    Ok(Err(_)) => Ok(()),
    Ok(Ok(value)) => {
      *accepted += 1;
      match judge(input, value) {
        Ok(()) => Ok(()),
        Err(fail) => cx.fail(fail),
      }
    }
  }
}

pub fn text_check(case: &TextCase, cx: &Cx) -> CheckResult {
  let input = case.input.as_str();
  let mut accepted = 0u32;

  run_parser(
    "sat",
    input,
    Sat::from_str,
    |i, sat: Sat| judge_sat(i, sat.0),
    cx,
    &mut accepted,
  )?;

  run_parser(
    "rune",
    input,
    Rune::from_str,
    |i, rune: Rune| {
      if reference_rune_value(i) == Some(rune.0) {
        Ok(())
      } else {
        Err(Fail::new(
          if i.is_empty() { "rune|accepts-empty" } else { "rune|wrong-value" },
          format!(
            "`{i}` parses to Rune({}) = `{}` but denotes {:?}",
            rune.0,
            reference_rune_name(rune.0),
            reference_rune_value(i)
          ),
        ))
      }
    },
    cx,
    &mut accepted,
  )?;

  run_parser(
    "spaced-rune",
    input,
    SpacedRune::from_str,
    judge_spaced_rune,
    cx,
    &mut accepted,
  )?;

  run_parser(
    "rune-id",
    input,
    RuneId::from_str,
    |i, id: RuneId| {
      if ref_rune_id(i) == Some((id.block, id.tx)) {
        Ok(())
      } else {
        Err(Fail::new(
          "rune-id|wrong-value",
          format!("`{i}` parses to {id} but denotes {:?}", ref_rune_id(i)),
        ))
      }
    },
    cx,
    &mut accepted,
  )?;

  run_parser(
    "decimal",
    input,
    Decimal::from_str,
    judge_decimal,
    cx,
    &mut accepted,
  )?;

  run_parser(
    "satpoint",
    input,
    SatPoint::from_str,
    judge_satpoint,
    cx,
    &mut accepted,
  )?;

  run_parser(
    "inscription-id",
    input,
    InscriptionId::from_str,
    judge_inscription_id,
    cx,
    &mut accepted,
  )?;

  run_parser(
    "outgoing",
    input,
    Outgoing::from_str,
    |i, outgoing: Outgoing| match outgoing {
      Outgoing::Amount(amount) => {
        if ref_amount_sats(i) == Some(amount.to_sat()) {
          Ok(())
        } else {
          Err(Fail::new(
            "outgoing|amount",
            format!(
              "`{i}` parses to {} sat but denotes {:?}",
              amount.to_sat(),
              ref_amount_sats(i)
            ),
          ))
        }
      }
      Outgoing::InscriptionId(id) => judge_inscription_id(i, id),
      Outgoing::Rune { decimal, rune } => {
        let Some((amount, name)) = i.split_once(':') else {
          return Err(Fail::new("outgoing|rune", format!("`{i}` has no colon")));
        };
        judge_decimal(amount.trim_end(), decimal)?;
        judge_spaced_rune(name.trim_start(), rune)
      }
      Outgoing::Sat(sat) => judge_sat(i, sat.0),
      Outgoing::SatPoint(satpoint) => judge_satpoint(i, satpoint),
    },
    cx,
    &mut accepted,
  )?;

  run_parser(
    "object",
    input,
    Object::from_str,
    |i, object: Object| match object {
      Object::Address(_) => Ok(()),
      Object::Hash(hash) => {
        let expected = ref_txid(i).map(|mut b| {
          b.reverse();
          b
        });
        if expected == Some(hash) {
          Ok(())
        } else {
          Err(Fail::new("object|hash", format!("`{i}` parses to hash {}", hex::encode(hash))))
        }
      }
      Object::InscriptionId(id) => judge_inscription_id(i, id),
      Object::Integer(n) => {
        if numeral(i) == Some(big(n)) {
          Ok(())
        } else {
          Err(Fail::new(
            "object|integer",
            format!("`{i}` parses to integer {n} but denotes {:?}", numeral(i)),
          ))
        }
      }
      Object::OutPoint(outpoint) => {
        if ref_outpoint(i) == Some((txid_bytes(outpoint.txid), outpoint.vout)) {
          Ok(())
        } else {
          Err(Fail::new(
            "object|outpoint",
            format!("`{i}` parses to {outpoint} but denotes {:?}", ref_outpoint(i)),
          ))
        }
      }
      Object::Rune(rune) => judge_spaced_rune(i, rune),
      Object::Sat(sat) => judge_sat(i, sat.0),
      Object::SatPoint(satpoint) => judge_satpoint(i, satpoint),
    },
    cx,
    &mut accepted,
  )?;

  // classification
  let big_number = input
    .split(|c: char| !c.is_ascii_digit())
    .any(|run| run.trim_start_matches('0').len() >= 10 && numeral(run).is_some_and(|n| n > big(u128::from(u32::MAX))));
  let upper = input.to_ascii_uppercase();
  let nonfinite = upper.contains("NAN") || upper.contains("INF") || upper.contains("E4") || upper.contains("E9");
  let long_name = input.chars().filter(|c| c.is_ascii_uppercase()).count() > 26;
  if big_number {
    cx.label("number-above-u32");
  }
  if nonfinite {
    cx.label("non-finite-or-huge-float");
  }
  if long_name {
    cx.label("name-longer-than-26");
  }
  if big_number || nonfinite || long_name {
    cx.nontrivial(fingerprint(&case.input));
  }
  if accepted > 0 {
    cx.label("accepted-by-some-parser");
  } else {
    cx.label("rejected-by-all");
  }
  cx.label(&format!("class-{}", sat_class(input)));
  cx.sample(8, || json!({"input": input, "accepted_by": accepted}));
  Ok(())
}

// --------------------------------------------------------------- generators

/// Decimal numerals whose values sit on every interesting boundary.
fn number_leaf() -> BoxedStrategy<String> {
  let boundary = prop_oneof![
    Just("0".to_string()),
    Just("1".to_string()),
    (0u32..=135, -2i64..=2).prop_map(|(bits, d)| {
      let base = BigUint::from(1u8) << bits;
      let v = if d >= 0 { base + d as u64 } else if base > BigUint::from((-d) as u64) { base - (-d) as u64 } else { BigUint::from(0u8) };
      v.to_string()
    }),
    (0u32..=41, -2i64..=2).prop_map(|(e, d)| {
      let base = BigUint::from(10u8).pow(e);
      let v = if d >= 0 { base + d as u64 } else if base > BigUint::from((-d) as u64) { base - (-d) as u64 } else { BigUint::from(0u8) };
      v.to_string()
    }),
    // multiples that wrap u32 arithmetic in the degree parser
    (0u64..40, 0u64..7).prop_map(|(k, d)| ((1u64 << 32) / 6 * (k % 7 + 1) + d).to_string()),
    (any::<u64>(), 0u32..64).prop_map(|(n, s)| (n >> s).to_string()),
    (0u64..3000).prop_map(|n| n.to_string()),
    (0u64..7_000_000).prop_map(|n| n.to_string()),
    "[0-9]{40,320}",
  ];
  (boundary, 0u8..12, 0usize..300).prop_map(|(n, decoration, zeros)| match decoration {
    0 => format!("+{n}"),
    1 => format!("{}{n}", "0".repeat(zeros % 5 + 1)),
    2 => format!("{}{n}", "0".repeat(zeros)),
    3 => format!("-{n}"),
    _ => n,
  })
  .boxed()
}

fn float_leaf() -> BoxedStrategy<String> {
  prop_oneof![
    4 => (number_leaf(), number_leaf()).prop_map(|(a, b)| format!("{a}.{b}")),
    2 => number_leaf(),
    2 => (0u32..=100, 0u32..1_000_000).prop_map(|(a, b)| format!("{a}.{b:06}")),
    1 => Just("NAN".to_string()),
    1 => Just("NaN".to_string()),
    1 => Just("INF".to_string()),
    1 => Just("-INF".to_string()),
    1 => Just("INFINITY".to_string()),
    1 => Just("+INFINITY".to_string()),
    1 => Just("-0".to_string()),
    1 => Just("-0.0".to_string()),
    1 => Just("1E400".to_string()),
    1 => Just("1E-400".to_string()),
    1 => (0u32..200, -420i32..420).prop_map(|(m, e)| format!("{m}E{e}")),
    1 => (0u32..200, 0u32..100, -30i32..30).prop_map(|(m, f, e)| format!("{m}.{f}E{e}")),
    1 => Just(".".to_string()),
    1 => (number_leaf()).prop_map(|n| format!(".{n}")),
    1 => (number_leaf()).prop_map(|n| format!("{n}.")),
  ]
  .boxed()
}

fn rune_name_leaf() -> BoxedStrategy<String> {
  prop_oneof![
    3 => "[A-Z]{1,30}",
    2 => "[A-Z]{26,40}",
    1 => Just(String::new()),
    2 => any::<u128>().prop_map(reference_rune_name),
    1 => Just(reference_rune_name(u128::MAX)),
    1 => (0u128..4).prop_map(|d| reference_rune_name(u128::MAX - d)),
    1 => Just("BCGDENLQRQWDSLRUGSNLBTMFIJAW".to_string()),
    1 => "[A-Za-z]{1,12}",
  ]
  .boxed()
}

fn spaced_rune_leaf() -> BoxedStrategy<String> {
  (rune_name_leaf(), proptest::collection::vec((0usize..45, prop_oneof![Just('•'), Just('.'), Just('·')]), 0..4))
    .prop_map(|(name, spacers)| {
      let mut chars: Vec<char> = name.chars().collect();
      let mut positions: Vec<(usize, char)> = spacers
        .into_iter()
        .map(|(p, c)| (p.min(chars.len() + 1), c))
        .collect();
      positions.sort_by(|a, b| b.0.cmp(&a.0));
      for (p, c) in positions {
        let p = p.min(chars.len());
        chars.insert(p, c);
      }
      chars.into_iter().collect()
    })
    .boxed()
}

fn hex64() -> BoxedStrategy<String> {
  prop_oneof![
    4 => "[0-9a-f]{64}",
    1 => "[0-9A-F]{64}",
    1 => "[0-9a-f]{63}",
    1 => "[0-9a-f]{65}",
    1 => "[0-9a-g]{64}",
  ]
  .boxed()
}

fn structured() -> BoxedStrategy<String> {
  prop_oneof![
    // sats
    3 => number_leaf(),
    3 => (number_leaf(), number_leaf()).prop_map(|(a, b)| format!("{a}.{b}")),
    4 => (number_leaf(), number_leaf(), number_leaf(), proptest::option::of(number_leaf()))
      .prop_map(|(c, e, p, t)| match t {
        Some(t) => format!("{c}°{e}′{p}″{t}‴"),
        None => format!("{c}°{e}′{p}″"),
      }),
    // degrees that are consistent (so that the cycle number is the only oddity)
    4 => (number_leaf(), 0u64..6, 0u64..HALVING, proptest::option::of(number_leaf())).prop_map(|(c, epoch, minute, t)| {
      let second = (epoch * HALVING + minute) % 2016;
      match t {
        Some(t) => format!("{c}°{minute}′{second}″{t}‴"),
        None => format!("{c}°{minute}′{second}″"),
      }
    }),
    4 => float_leaf().prop_map(|f| format!("{f}%")),
    2 => "[a-z]{1,13}",
    // runes
    3 => rune_name_leaf(),
    4 => spaced_rune_leaf(),
    3 => (number_leaf(), number_leaf()).prop_map(|(a, b)| format!("{a}:{b}")),
    // decimals
    5 => float_leaf(),
    2 => (0usize..300, number_leaf()).prop_map(|(z, n)| format!("0.{}{n}", "0".repeat(z))),
    2 => (number_leaf(), 0usize..300).prop_map(|(n, z)| format!("{n}.5{}", "0".repeat(z))),
    // satpoints, outpoints, inscription ids
    2 => (hex64(), number_leaf(), number_leaf()).prop_map(|(t, v, o)| format!("{t}:{v}:{o}")),
    2 => (hex64(), number_leaf()).prop_map(|(t, v)| format!("{t}:{v}")),
    2 => (hex64(), number_leaf()).prop_map(|(t, i)| format!("{t}i{i}")),
    1 => hex64(),
    // outgoing
    3 => (float_leaf(), prop_oneof![Just(""), Just(" "), Just("  ")], prop_oneof![
        Just("btc"), Just("sat"), Just("sats"), Just("msat"), Just("bit"), Just("bits"), Just("satoshi"), Just("ubtc"), Just("nbtc"), Just("pbtc"), Just("cbtc"), Just("mbtc"), Just("BTC")
      ]).prop_map(|(n, sp, u)| format!("{n}{sp}{u}")),
    3 => (float_leaf(), prop_oneof![Just(":"), Just(" : "), Just(": ")], spaced_rune_leaf()).prop_map(|(n, sep, r)| format!("{n}{sep}{r}")),
  ]
  .boxed()
}

const ALPHABET: &[char] = &[
  '0', '1', '2', '5', '9', '.', ':', '%', '°', '′', '″', '‴', '•', 'i', 'a', 'z', 'A', 'Z', 'E',
  'e', 'N', 'I', 'F', '+', '-', ' ', '٣', '１', 'f', 'b', 't', 'c', 's', '\u{0}', '\n', 'é', '_',
];

fn mutated() -> BoxedStrategy<String> {
  (
    structured(),
    proptest::collection::vec((any::<u16>(), 0u8..4, any::<u16>()), 0..4),
  )
    .prop_map(|(s, edits)| {
      let mut chars: Vec<char> = s.chars().collect();
      for (position, kind, choice) in edits {
        let c = ALPHABET[crate::util::pick_index(choice, ALPHABET.len())];
        let p = crate::util::pick_index(position, chars.len() + 1);
        match kind {
          0 => chars.insert(p, c),
          1 if p < chars.len() => {
            chars.remove(p);
          }
          2 if p < chars.len() => chars[p] = c,
          _ => {
            if p < chars.len() {
              let d = chars[p];
              chars.insert(p, d);
            }
          }
        }
      }
      chars.into_iter().collect()
    })
    .boxed()
}

fn text_strategy() -> BoxedStrategy<TextCase> {
  prop_oneof![
    6 => structured(),
    3 => mutated(),
    1 => proptest::collection::vec(0usize..ALPHABET.len(), 0..40)
      .prop_map(|v| v.into_iter().map(|i| ALPHABET[i]).collect::<String>()),
    1 => "\\PC{0,24}",
  ]
  .prop_map(|input| TextCase { input })
  .boxed()
}

pub fn c31(s: &mut Session) -> Meta {
  let cases = s.tier().pick(2_000_000, 30_000_000);
  s.run_part(Part::new("parsers", cases, text_strategy, text_check));
  Meta {
    level: "exploration",
    rule: "Strings from grammar-directed generators for every notation (sat integer/decimal/degree/percentile/name, rune, spaced rune, rune id, decimal amount, satpoint, outpoint, inscription id, outgoing amount and rune amount) whose numeric leaves are boundary integers (2^k±2 up to 2^135, 10^k±2 up to 10^41, u32-wrapping multiples, 40..320-digit numerals, leading zeros, +/- signs) and float words (NAN, INF, INFINITY, 1E400, -0), plus character-level mutations and random strings. Each string goes to Sat, Rune, SpacedRune, RuneId, Decimal, SatPoint, InscriptionId, Outgoing and Object from_str. Oracle: no panic; Ok(v) only if a reference evaluator with exact big-integer arithmetic accepts the string and denotes v (percentiles within one sat). Non-trivial = string with a numeric component above u32::MAX, a non-finite/huge float word, or more than 26 upper-case letters; distinct by string.",
    assumptions: &[
      "A leading '+' on a numeric component is taken to denote the same number (Rust integer grammar)",
      "Percentile strings denote position p/100*(supply-1); a result within one sat of the exact value is accepted (f64 rounding)",
      "Explorer query parsers are crate-private; they are exercised through the HTTP routes by C18",
    ],
    required_labels: &["number-above-u32", "non-finite-or-huge-float", "name-longer-than-26", "accepted-by-some-parser", "rejected-by-all", "class-degree", "class-percentile", "class-decimal", "class-name", "class-integer"],
  }
}

// ============================================================ C34 amounts

#[derive(Clone, Debug, Serialize, Deserialize)]
pub enum AmountCase {
  Pile { amount: String, divisibility: u8, symbol: Option<char> },
  Text { input: String, divisibility: u8 },
}

fn amount_check(case: &AmountCase, cx: &Cx) -> CheckResult {
  match case {
    AmountCase::Pile { amount, divisibility, symbol } => {
      let amount: u128 = amount.parse().unwrap();
      let pile = Pile { amount, divisibility: *divisibility, symbol: *symbol };
      let printed = pile.to_string();
      let number = printed
        .split('\u{A0}')
        .next()
        .unwrap_or("")
        .to_string();
      let decimal = match crate::runner::catch(|| number.parse::<Decimal>()) {
        Err(record) => return cx.fail(Fail::new(
          format!("pile|parse-panic|{}", crate::runner::panic_site(&record)),
          format!("Pile {{ {amount}, {divisibility} }} prints `{printed}`; parsing `{number}` panics: {}", record.message),
        )),
        Ok(Err(err)) => return cx.fail(Fail::new(
          "pile|parse-error",
          format!("Pile {{ {amount}, {divisibility} }} prints `{printed}`; `{number}` fails to parse: {err}"),
        )),
        Ok(Ok(decimal)) => decimal,
      };
      match crate::runner::catch(|| decimal.to_integer(*divisibility)) {
        Ok(Ok(n)) if n == amount => {}
        Ok(other) => return cx.fail(Fail::new(
          "pile|roundtrip",
          format!("Pile {{ {amount}, {divisibility} }} prints `{printed}`; parsed back at divisibility {divisibility}: {other:?}"),
        )),
        Err(record) => return cx.fail(Fail::new(
          format!("pile|to-integer-panic|{}", crate::runner::panic_site(&record)),
          format!("to_integer panics for `{number}`: {}", record.message),
        )),
      }
      // Decimal's own Display parses back too
      let shown = decimal.to_string();
      if shown.parse::<Decimal>().ok() != Some(decimal) {
        return cx.fail(Fail::new(
          "decimal|display-roundtrip",
          format!("{decimal:?} displays as `{shown}` which does not parse back"),
        ));
      }
      cx.label(if number.contains('.') { "pile-fractional" } else { "pile-whole" });
      if number.contains('.') {
        cx.nontrivial(fingerprint(&(amount, *divisibility)));
      }
      cx.sample(3, || json!({"amount": amount.to_string(), "divisibility": divisibility, "printed": printed}));
    }
    AmountCase::Text { input, divisibility } => {
      let parsed = match crate::runner::catch(|| input.parse::<Decimal>()) {
        Err(record) => return cx.fail(Fail::new(
          format!("decimal|panic|{}", crate::runner::panic_site(&record)),
          format!("parsing `{input}` panics at {}: {}", record.location, record.message),
        )),
        Ok(parsed) => parsed,
      };
      let Ok(decimal) = parsed else {
        cx.label("text-rejected");
        return Ok(());
      };
      if let Err(fail) = judge_decimal(input, decimal) {
        return cx.fail(fail);
      }
      let (value, scale) = ref_decimal(input).unwrap();
      let expected: Option<u128> = if scale <= usize::from(*divisibility) {
        let v = value * BigUint::from(10u8).pow((usize::from(*divisibility) - scale) as u32);
        u128::try_from(v).ok()
      } else {
        None
      };
      match crate::runner::catch(|| decimal.to_integer(*divisibility)) {
        Err(record) => return cx.fail(Fail::new(
          format!("to-integer|panic|{}", crate::runner::panic_site(&record)),
          format!("`{input}`.to_integer({divisibility}) panics: {}", record.message),
        )),
        Ok(result) => {
          if result.as_ref().ok().copied() != expected {
            return cx.fail(Fail::new(
              "to-integer|wrong",
              format!("`{input}`.to_integer({divisibility}) = {result:?}, exact value is {expected:?}"),
            ));
          }
          cx.label(if expected.is_some() { "text-converted" } else { "text-conversion-error" });
        }
      }
      if input.contains('.') {
        cx.nontrivial(fingerprint(&(input, *divisibility)));
      }
      cx.sample(6, || json!({"input": input, "divisibility": divisibility}));
    }
  }
  Ok(())
}

fn amount_strategy() -> BoxedStrategy<AmountCase> {
  prop_oneof![
    5 => (crate::util::boundary_u128(), 0u8..=38, proptest::option::of(any::<char>()))
      .prop_map(|(amount, divisibility, symbol)| AmountCase::Pile { amount: amount.to_string(), divisibility, symbol }),
    // amounts with many trailing zeros
    2 => (0u128..10_000, 0u32..=38, 0u8..=38)
      .prop_map(|(m, e, divisibility)| AmountCase::Pile { amount: m.saturating_mul(10u128.pow(e)).to_string(), divisibility, symbol: None }),
    4 => (float_leaf(), 0u8..=38).prop_map(|(input, divisibility)| AmountCase::Text { input, divisibility }),
    2 => (crate::util::boundary_u128(), 0u32..=40, 0u8..=38).prop_map(|(n, point, divisibility)| {
      let s = n.to_string();
      let p = (point as usize).min(s.len());
      let (a, b) = s.split_at(s.len() - p);
      AmountCase::Text { input: format!("{a}.{b}"), divisibility }
    }),
    1 => (0usize..300, 1u32..1000, 0u8..=38).prop_map(|(z, n, divisibility)| AmountCase::Text { input: format!("0.{}{n}", "0".repeat(z)), divisibility }),
  ]
  .boxed()
}

pub fn c34(s: &mut Session) -> Meta {
  let cases = s.tier().pick(3_000_000, 20_000_000);
  s.run_part(Part::new("amounts", cases, amount_strategy, amount_check));
  Meta {
    level: "exploration",
    rule: "Pile{amount, divisibility 0..=38, symbol} values (u128 boundaries, m*10^e) are printed, the number before the symbol is parsed as Decimal and converted with to_integer(divisibility): must equal the amount. Decimal strings (boundary integers around 2^128 and 10^38..10^41, long fractions, signs, exponents) are parsed; Ok must denote the exact value/scale, and to_integer(d) must equal the exact number of base units or be an error when precision is excessive or the result exceeds u128. Non-trivial = printed/parsed number has a fractional part; distinct by (amount, divisibility) / (string, divisibility).",
    assumptions: &[],
    required_labels: &["pile-fractional", "pile-whole", "text-converted", "text-conversion-error", "text-rejected"],
  }
}
