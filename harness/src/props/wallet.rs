//! C22, C23: the real `ord wallet` commands against a generated wallet
//! inventory, observed at the mock node (mempool, lock set) and at the
//! index (rune balances after mining).

use {
  crate::{
    node::IndexConfig,
    runner::{CheckResult, Cx, Fail, Meta, Part, Session, fingerprint},
    util::{U128, pick_index},
    walletenv::{
      Inventory, InventorySpec, OutState, RuneSpec, WalletEnv, WalletOutSpec, decimal_string,
      foreign_address,
    },
  },
  bitcoin::{Amount, OutPoint, Psbt, Transaction},
  ordinals::Rune,
  proptest::prelude::*,
  serde::{Deserialize, Serialize},
  serde_json::json,
  std::collections::{BTreeMap, BTreeSet},
};

fn harness<E: std::fmt::Display>(what: &str) -> impl Fn(E) -> Fail + '_ {
  move |e| Fail::new("HARNESS-FAULT", format!("{what}: {e:#}"))
}

#[derive(Clone, Debug, Serialize, Deserialize, PartialEq, Eq, Hash)]
pub enum RuneAmt {
  Zero,
  One,
  Frac(u16),
  Full,
  Over(u16),
}

#[derive(Clone, Debug, Serialize, Deserialize, PartialEq, Eq, Hash)]
pub struct SplitOut {
  pub dest: u8,
  pub value: Option<u64>,
  pub runes: Vec<(u16, RuneAmt)>,
}

#[derive(Clone, Debug, Serialize, Deserialize, PartialEq, Eq, Hash)]
pub enum Cmd {
  SendSats { frac: u16, over: bool },
  SendRune { rune: u16, amount: RuneAmt, postage: Option<u64> },
  BurnRune { rune: u16, amount: RuneAmt },
  Mint { rune: u16, postage: Option<u64>, to_foreign: bool },
  Split { outputs: Vec<SplitOut>, postage: Option<u64> },
  OfferCreate { which: u16, amount: u64 },
}

impl Cmd {
  pub fn kind(&self) -> &'static str {
    match self {
      Cmd::SendSats { .. } => "send-sats",
      Cmd::SendRune { .. } => "send-rune",
      Cmd::BurnRune { .. } => "burn-rune",
      Cmd::Mint { .. } => "mint",
      Cmd::Split { .. } => "split",
      Cmd::OfferCreate { .. } => "offer-create",
    }
  }
}

#[derive(Clone, Debug, Serialize, Deserialize, PartialEq, Eq, Hash)]
pub struct Step {
  pub cmd: Cmd,
  pub fee_rate: u8,
  pub dry_run: bool,
}

#[derive(Clone, Debug, Serialize, Deserialize, PartialEq, Eq, Hash)]
pub struct WalletCase {
  pub inventory: InventorySpec,
  pub steps: Vec<Step>,
  pub salt: u64,
}

// ---------------------------------------------------------------- generators

fn rune_amt(zero_weight: u32) -> impl Strategy<Value = RuneAmt> {
  prop_oneof![
    zero_weight => Just(RuneAmt::Zero),
    1 => Just(RuneAmt::One),
    5 => any::<u16>().prop_map(RuneAmt::Frac),
    3 => Just(RuneAmt::Full),
    1 => (0u16..5).prop_map(RuneAmt::Over),
  ]
}

fn rune_spec() -> impl Strategy<Value = RuneSpec> {
  (
    prop_oneof![Just(0u8), Just(0u8), 1u8..=8, Just(18u8), Just(38u8)],
    prop_oneof![
      Just(1u128),
      2u128..1000,
      1000u128..10_000_000,
      (u64::MAX as u128 - 5)..(u64::MAX as u128 + 5),
      Just(u128::MAX / 4),
    ],
    proptest::option::weighted(0.5, (1u128..1000, 1u128..100)),
    prop_oneof![Just(0u32), Just(0u32), 0u32..4096],
  )
    .prop_map(|(divisibility, premine, mint, spacers)| RuneSpec {
      divisibility,
      premine: U128(premine),
      mint: mint.map(|(a, c)| (U128(a), U128(c))),
      spacers,
    })
}

fn wallet_out() -> impl Strategy<Value = WalletOutSpec> {
  (
    // kind: 0 cardinal, 1 inscribed, 2 runic, 3 both
    prop_oneof![5 => Just(0u8), 3 => Just(1u8), 4 => Just(2u8), 1 => Just(3u8)],
    prop_oneof![
      330u64..20_000,
      20_000u64..2_000_000,
      2_000_000u64..50_000_000,
    ],
    1u8..=3,
    any::<bool>(),
    proptest::collection::vec((0usize..3, prop_oneof![1u128..50, 1u128..100_000, any::<u128>()]), 1..=3),
  )
    .prop_map(|(kind, value, inscriptions, spread, runes)| {
      // non-cardinal outputs are made valuable: the mock node funds
      // largest-first, so an unlocked one would be the first it takes
      let value = if kind == 0 { value } else { value.saturating_mul(3).max(10_000) };
      WalletOutSpec {
        value,
        inscriptions: if kind == 1 || kind == 3 { inscriptions } else { 0 },
        spread,
        runes: if kind >= 2 { runes.into_iter().map(|(r, a)| (r, U128(a))).collect() } else { Vec::new() },
      }
    })
}

fn inventory() -> impl Strategy<Value = InventorySpec> {
  (
    prop_oneof![3 => 1usize..=1, 3 => 2usize..=2, 2 => 3usize..=3].prop_flat_map(|n| proptest::collection::vec(rune_spec(), n)),
    proptest::collection::vec(wallet_out(), 3..=10),
    proptest::collection::vec(10_000u64..1_000_000, 0..=2),
  )
    .prop_map(|(runes, outputs, foreign_inscriptions)| InventorySpec {
      runes,
      outputs,
      foreign_inscriptions,
    })
}

fn split_out() -> impl Strategy<Value = SplitOut> {
  (
    10u8..14,
    proptest::option::weighted(0.5, 330u64..20_000),
    proptest::collection::vec((0u16..3, rune_amt(1)), 0..=3),
  )
    .prop_map(|(dest, value, runes)| SplitOut { dest, value, runes })
}

fn cmd(rune_weight: u32, other_weight: u32) -> impl Strategy<Value = Cmd> {
  let postage = || proptest::option::weighted(0.4, prop_oneof![330u64..1000, 1000u64..50_000]);
  prop_oneof![
    other_weight => (any::<u16>(), proptest::bool::weighted(0.25)).prop_map(|(frac, over)| Cmd::SendSats { frac, over }),
    rune_weight => (0u16..3, rune_amt(3), postage()).prop_map(|(rune, amount, postage)| Cmd::SendRune { rune, amount, postage }),
    rune_weight => (0u16..3, rune_amt(3)).prop_map(|(rune, amount)| Cmd::BurnRune { rune, amount }),
    other_weight => (0u16..3, postage(), any::<bool>()).prop_map(|(rune, postage, to_foreign)| Cmd::Mint { rune, postage, to_foreign }),
    rune_weight => (proptest::collection::vec(split_out(), 1..=4), postage()).prop_map(|(outputs, postage)| Cmd::Split { outputs, postage }),
    other_weight => (any::<u16>(), 1000u64..5_000_000).prop_map(|(which, amount)| Cmd::OfferCreate { which, amount }),
  ]
}

fn step(rune_weight: u32, other_weight: u32) -> impl Strategy<Value = Step> {
  (cmd(rune_weight, other_weight), prop_oneof![Just(0u8), Just(1u8), 2u8..6], proptest::bool::weighted(0.15))
    .prop_map(|(cmd, fee_rate, dry_run)| Step { cmd, fee_rate, dry_run })
}

fn case_strategy(max_steps: usize, rune_weight: u32, other_weight: u32) -> BoxedStrategy<WalletCase> {
  (
    inventory(),
    proptest::collection::vec(step(rune_weight, other_weight), 1..=max_steps),
    any::<u64>(),
  )
    .prop_map(|(inventory, steps, salt)| WalletCase { inventory, steps, salt })
    .boxed()
}

// ------------------------------------------------------------------ driver

pub struct StepRun {
  pub pre: BTreeMap<OutPoint, OutState>,
  pub ok: bool,
  pub stderr: String,
  pub stdout: String,
  /// transactions the command put into the mempool
  pub broadcast: Vec<Transaction>,
  /// transaction of a PSBT the command printed without broadcasting
  pub offered: Option<Transaction>,
  pub subject: BTreeSet<OutPoint>,
  pub args: Vec<String>,
  /// resolved request: (rune, amount) pairs per recipient script
  pub requested: Vec<(bitcoin::ScriptBuf, Rune, u128)>,
  pub requested_burn: Option<(Rune, u128)>,
  pub zero_request: bool,
  pub skipped: bool,
}

fn spendable(pre: &BTreeMap<OutPoint, OutState>, rune: Rune) -> u128 {
  pre
    .values()
    .filter(|o| o.inscriptions.is_empty())
    .map(|o| o.runes.get(&rune).copied().unwrap_or(0))
    .fold(0u128, |a, b| a.saturating_add(b))
}

fn resolve(amount: &RuneAmt, available: u128) -> u128 {
  match amount {
    RuneAmt::Zero => 0,
    RuneAmt::One => 1,
    RuneAmt::Frac(f) => ((available / 65536).saturating_mul(u128::from(*f)) + (available % 65536) * u128::from(*f) / 65536).max(1),
    RuneAmt::Full => available,
    RuneAmt::Over(x) => available.saturating_add(1 + u128::from(*x)),
  }
}

pub fn run_step(env: &mut WalletEnv, inventory: &Inventory, step: &Step) -> Result<StepRun, Fail> {
  // locks live in the node's memory only: every command starts from none
  env.clear_locks();
  let pre = env.snapshot().map_err(harness("snapshot"))?;
  let fee_rate = step.fee_rate.to_string();
  let mut args: Vec<String> = Vec::new();
  let mut files: Vec<(&str, Vec<u8>)> = Vec::new();
  let mut subject = BTreeSet::new();
  let mut requested = Vec::new();
  let mut requested_burn = None;
  let mut zero_request = false;
  let mut skipped = false;
  let nrunes = inventory.runes.len();
  match &step.cmd {
    Cmd::SendSats { frac, over } => {
      let cardinal: u64 = pre.values().filter(|o| o.cardinal()).map(|o| o.value).sum();
      let amount = if *over {
        cardinal + 1000 + u64::from(*frac)
      } else {
        ((u128::from(cardinal) * u128::from(*frac)) >> 16) as u64
      }
      .max(330);
      args.extend(["send".into(), "--fee-rate".into(), fee_rate.clone()]);
      if step.dry_run {
        args.push("--dry-run".into());
      }
      args.push(foreign_address(20).to_string());
      args.push(format!("{amount}sat"));
    }
    Cmd::SendRune { rune, amount, postage } => {
      let meta = &inventory.runes[usize::from(*rune) % nrunes];
      let amount = resolve(amount, spendable(&pre, meta.rune));
      zero_request = amount == 0;
      for (outpoint, state) in &pre {
        if state.inscriptions.is_empty() && state.runes.get(&meta.rune).copied().unwrap_or(0) > 0 {
          subject.insert(*outpoint);
        }
      }
      args.extend(["send".into(), "--fee-rate".into(), fee_rate.clone()]);
      if step.dry_run {
        args.push("--dry-run".into());
      }
      if let Some(postage) = postage {
        args.push("--postage".into());
        args.push(format!("{postage}sat"));
      }
      let destination = foreign_address(21);
      args.push(destination.to_string());
      args.push(format!("{}:{}", decimal_string(amount, meta.divisibility), meta.spaced));
      requested.push((destination.script_pubkey(), meta.rune, amount));
    }
    Cmd::BurnRune { rune, amount } => {
      let meta = &inventory.runes[usize::from(*rune) % nrunes];
      let amount = resolve(amount, spendable(&pre, meta.rune));
      zero_request = amount == 0;
      for (outpoint, state) in &pre {
        if state.inscriptions.is_empty() && state.runes.get(&meta.rune).copied().unwrap_or(0) > 0 {
          subject.insert(*outpoint);
        }
      }
      args.extend(["burn".into(), "--fee-rate".into(), fee_rate.clone()]);
      if step.dry_run {
        args.push("--dry-run".into());
      }
      args.push(format!("{}:{}", decimal_string(amount, meta.divisibility), meta.spaced));
      requested_burn = Some((meta.rune, amount));
    }
    Cmd::Mint { rune, postage, to_foreign } => {
      let mintable: Vec<_> = inventory.runes.iter().filter(|r| r.mint.is_some()).collect();
      let meta = if mintable.is_empty() {
        &inventory.runes[usize::from(*rune) % nrunes]
      } else {
        mintable[usize::from(*rune) % mintable.len()]
      };
      args.extend(["mint".into(), "--fee-rate".into(), fee_rate.clone(), "--rune".into(), meta.spaced.to_string()]);
      if let Some(postage) = postage {
        args.push("--postage".into());
        args.push(format!("{postage}sat"));
      }
      if *to_foreign {
        args.push("--destination".into());
        args.push(foreign_address(22).to_string());
      }
    }
    Cmd::Split { outputs, postage } => {
      let mut remaining: BTreeMap<Rune, u128> = inventory
        .runes
        .iter()
        .map(|m| (m.rune, spendable(&pre, m.rune)))
        .collect();
      let mut yaml = String::from("outputs:\n");
      let mut wanted: BTreeSet<Rune> = BTreeSet::new();
      for output in outputs {
        let destination = foreign_address(output.dest);
        yaml.push_str(&format!("- address: {destination}\n"));
        if let Some(value) = output.value {
          yaml.push_str(&format!("  value: {value} sat\n"));
        }
        let mut per_rune: BTreeMap<Rune, u128> = BTreeMap::new();
        let mut lines = String::new();
        for (rune, amount) in &output.runes {
          let meta = &inventory.runes[usize::from(*rune) % nrunes];
          if per_rune.contains_key(&meta.rune) {
            continue;
          }
          let available = remaining[&meta.rune];
          let amount = resolve(amount, available);
          if amount == 0 {
            zero_request = true;
          }
          remaining.insert(meta.rune, available.saturating_sub(amount));
          per_rune.insert(meta.rune, amount);
          wanted.insert(meta.rune);
          lines.push_str(&format!("    {}: {}\n", meta.spaced, decimal_string(amount, meta.divisibility)));
          requested.push((destination.script_pubkey(), meta.rune, amount));
        }
        if lines.is_empty() {
          yaml.push_str("  runes: {}\n");
        } else {
          yaml.push_str("  runes:\n");
          yaml.push_str(&lines);
        }
      }
      for (outpoint, state) in &pre {
        if state.inscriptions.is_empty() && wanted.iter().any(|r| state.runes.get(r).copied().unwrap_or(0) > 0) {
          subject.insert(*outpoint);
        }
      }
      files.push(("splits.yaml", yaml.into_bytes()));
      args.extend(["split".into(), "--fee-rate".into(), fee_rate.clone(), "--splits".into(), "splits.yaml".into()]);
      if step.dry_run {
        args.push("--dry-run".into());
      }
      if let Some(postage) = postage {
        args.push("--postage".into());
        args.push(format!("{postage}sat"));
      }
    }
    Cmd::OfferCreate { which, amount } => {
      if inventory.foreign_inscriptions.is_empty() {
        skipped = true;
      } else {
        let (id, _, _) = inventory.foreign_inscriptions[pick_index(*which, inventory.foreign_inscriptions.len())];
        args.extend([
          "offer".into(),
          "create".into(),
          "--inscription".into(),
          id.to_string(),
          "--amount".into(),
          format!("{amount}sat"),
          "--fee-rate".into(),
          fee_rate.clone(),
        ]);
      }
    }
  }
  if skipped {
    return Ok(StepRun {
      pre,
      ok: false,
      stderr: String::new(),
      stdout: String::new(),
      broadcast: Vec::new(),
      offered: None,
      subject,
      args,
      requested,
      requested_burn,
      zero_request,
      skipped,
    });
  }
  let before: BTreeSet<_> = env.mempool().iter().map(|tx| tx.compute_txid()).collect();
  let arg_refs: Vec<&str> = args.iter().map(String::as_str).collect();
  let started = std::time::Instant::now();
  let output = env.wallet(&arg_refs, &files).map_err(harness("ord wallet"))?;
  if std::env::var_os("ORDVERIF_DEBUG").is_some() {
    eprintln!(
      "[debug] {:?} ord wallet {} -> {:?} {}",
      started.elapsed(),
      args.join(" "),
      output.code,
      output.stderr.lines().last().unwrap_or("")
    );
    if output.stderr.contains("panicked") {
      eprintln!("[debug-panic] {}", output.stderr.replace('\n', " | "));
    }
  }
  let broadcast: Vec<Transaction> = env
    .mempool()
    .into_iter()
    .filter(|tx| !before.contains(&tx.compute_txid()))
    .collect();
  let mut offered = None;
  if output.ok() && (step.dry_run || matches!(step.cmd, Cmd::OfferCreate { .. })) {
    if let Ok(value) = serde_json::from_str::<serde_json::Value>(&output.stdout) {
      if let Some(psbt) = value.get("psbt").and_then(|p| p.as_str()) {
        use base64::Engine;
        if let Ok(bytes) = base64::engine::general_purpose::STANDARD.decode(psbt) {
          if let Ok(psbt) = Psbt::deserialize(&bytes) {
            offered = Some(psbt.unsigned_tx);
          }
        }
      }
    }
  }
  Ok(StepRun {
    pre,
    ok: output.ok(),
    stderr: output.stderr,
    stdout: output.stdout,
    broadcast,
    offered,
    subject,
    args,
    requested,
    requested_burn,
    zero_request,
    skipped,
  })
}

fn crashed(run: &StepRun) -> bool {
  run.stderr.contains("panicked at") && (run.stderr.contains("src/") || run.stderr.contains("/repo/"))
}

fn index_config() -> IndexConfig {
  IndexConfig {
    sats: false,
    ..IndexConfig::default()
  }
}

// --------------------------------------------------------------------- C23

fn c23_check(case: &WalletCase, cx: &Cx) -> CheckResult {
  let started = std::time::Instant::now();
  let mut env = WalletEnv::new(&index_config()).map_err(harness("env"))?;
  let t_env = started.elapsed();
  let inventory = env.build_inventory(&case.inventory, case.salt).map_err(harness("inventory"))?;
  if std::env::var_os("ORDVERIF_DEBUG").is_some() {
    eprintln!("[debug] env {:?} inventory {:?}", t_env, started.elapsed() - t_env);
  }
  for (n, step) in case.steps.iter().enumerate() {
    let run = run_step(&mut env, &inventory, step)?;
    if run.skipped {
      continue;
    }
    let kind = step.cmd.kind();
    cx.label(&format!("cmd:{kind}"));
    if run.ok {
      cx.label(&format!("ok:{kind}"));
    }
    let txs: Vec<&Transaction> = run.broadcast.iter().chain(run.offered.iter()).collect();
    let mut selected_by_node = 0u32;
    let mut smallest_selected = u64::MAX;
    for tx in &txs {
      for input in &tx.input {
        let Some(state) = run.pre.get(&input.previous_output) else {
          continue;
        };
        if run.subject.contains(&input.previous_output) {
          continue;
        }
        if !state.cardinal() {
          let what = if !state.inscriptions.is_empty() && !state.runes.is_empty() {
            "inscribed-and-runic"
          } else if !state.inscriptions.is_empty() {
            "inscribed"
          } else {
            "runic"
          };
          return cx.fail(Fail::new(
            format!("c23|spent|{kind}|{what}"),
            format!(
              "step {n}: `ord wallet {}` produced transaction {} spending {} which holds {:?} and is not the subject of the command",
              run.args.join(" "),
              tx.compute_txid(),
              input.previous_output,
              state
            ),
          ));
        }
        selected_by_node += 1;
        smallest_selected = smallest_selected.min(state.value);
      }
    }
    let locked = env.locked();
    let protected: Vec<(&OutPoint, &OutState)> = run
      .pre
      .iter()
      .filter(|(outpoint, state)| !state.cardinal() && !run.subject.contains(outpoint))
      .collect();
    if run.ok {
      for (outpoint, state) in &protected {
        if !locked.contains(outpoint) {
          return cx.fail(Fail::new(
            format!("c23|not-locked|{kind}"),
            format!(
              "step {n}: `ord wallet {}` succeeded but left {} ({:?}) unlocked at the node while it was funding",
              run.args.join(" "),
              outpoint,
              state
            ),
          ));
        }
      }
    }
    if !txs.is_empty() && selected_by_node > 0 {
      cx.label("node-added-inputs");
      let tempting = protected.iter().filter(|(_, s)| s.value > smallest_selected).count();
      if tempting > 0 {
        cx.label("tempting-noncardinal-present");
        cx.label(&format!("tempting:{kind}"));
        cx.nontrivial(fingerprint(&(case, n)));
        cx.sample(6, || {
          json!({
            "command": run.args.join(" "),
            "node_selected_inputs": selected_by_node,
            "protected_noncardinal_outputs": protected.len(),
            "of_which_more_valuable_than_a_selected_input": tempting,
          })
        });
      }
    }
    if !run.ok && run.stderr.contains("insufficient funds") && !protected.is_empty() {
      cx.label("insufficient-funds-with-noncardinals-held");
    }
    if crashed(&run) {
      cx.label("cli-panicked");
    }
    env.mine(1).map_err(harness("mine"))?;
  }
  Ok(())
}

pub fn c23(s: &mut Session) -> Meta {
  let t = s.tier();
  s.run_part(
    Part::new("node-funded-commands", t.pick(160, 2400), move || case_strategy(5, 2, 3), c23_check)
      .shrink_iters(60)
      .timeout(600),
  );
  Meta {
    level: "exploration",
    rule: "Each case builds a wallet on the mock node from generated holdings (2..9 outputs: cardinal, inscribed with 1..3 inscriptions on the same or different sats, runic with 1..3 of up to 3 etched runes, and both; inscribed/runic outputs are given larger values than cardinal ones because the mock node funds largest-first) and runs 1..5 real `ord wallet` commands (subprocess, live `ord server`): send <sats> (including more than the cardinal balance), send/burn <amount:RUNE> (zero, one, fractions, full, more than held), mint, split (1..4 recipients), offer create; fee rates 0..5, some --dry-run. The node's lock set is cleared before every command (locks are memory-only in bitcoind). Oracle: every input of every transaction the command broadcast (mock mempool) or printed as PSBT is, by the index's /output JSON taken before the command, either cardinal or a subject of the command (non-inscribed output holding the rune being sent/burnt/split); and after a successful command every inscribed or runic non-subject wallet output is in the node's lock set. Non-trivial = a command whose transaction got at least one node-selected input while the wallet held a non-subject inscribed or runic output more valuable than one of the selected inputs (the node would have preferred it had it not been locked); distinct by (case, step).",
    assumptions: &[
      "the mock node's fundrawtransaction (largest unlocked wallet output first) stands in for bitcoind's coin selection",
      "`ord wallet sweep` (needs a foreign private key) is not driven",
    ],
    required_labels: &[
      "ok:send-sats",
      "ok:send-rune",
      "ok:burn-rune",
      "ok:mint",
      "ok:split",
      "ok:offer-create",
      "tempting:send-sats",
      "tempting:send-rune",
      "tempting:mint",
      "tempting:split",
      "tempting:offer-create",
    ],
  }
}

// --------------------------------------------------------------------- C22

fn c22_check(case: &WalletCase, cx: &Cx) -> CheckResult {
  let mut env = WalletEnv::new(&index_config()).map_err(harness("env"))?;
  let inventory = env.build_inventory(&case.inventory, case.salt).map_err(harness("inventory"))?;
  for (n, step) in case.steps.iter().enumerate() {
    let kind = step.cmd.kind();
    if !matches!(step.cmd, Cmd::SendRune { .. } | Cmd::BurnRune { .. } | Cmd::Split { .. }) {
      continue;
    }
    let burned_before: BTreeMap<Rune, u128> = inventory
      .runes
      .iter()
      .map(|m| Ok((m.rune, env.burned(m)?)))
      .collect::<anyhow::Result<_>>()
      .map_err(harness("burned"))?;
    let run = run_step(&mut env, &inventory, step)?;
    cx.label(&format!("cmd:{kind}"));
    let command = format!("ord wallet {}", run.args.join(" "));
    if run.zero_request {
      cx.label(&format!("zero-request:{kind}"));
      if run.ok || !run.broadcast.is_empty() {
        return cx.fail(Fail::new(
          format!("c22|zero-accepted|{kind}"),
          format!(
            "step {n}: `{command}` asks for zero units of a rune and was accepted (exit ok={}, {} transaction(s) broadcast); stdout: {}",
            run.ok,
            run.broadcast.len(),
            run.stdout.trim()
          ),
        ));
      }
      cx.nontrivial(fingerprint(&(case, n, "zero")));
      continue;
    }
    if !run.ok {
      cx.label(&format!("rejected:{kind}"));
      env.mine(1).map_err(harness("mine"))?;
      continue;
    }
    if step.dry_run {
      cx.label("dry-run");
      if !run.broadcast.is_empty() {
        return cx.fail(Fail::new(
          format!("c22|dry-run-broadcast|{kind}"),
          format!("step {n}: `{command}` broadcast a transaction despite --dry-run"),
        ));
      }
      // simulate: broadcast the offered transaction ourselves
      if let Some(tx) = &run.offered {
        env.push_tx(tx.clone());
      } else {
        continue;
      }
    }
    let txs: Vec<Transaction> = if step.dry_run {
      run.offered.iter().cloned().collect()
    } else {
      run.broadcast.clone()
    };
    if txs.len() != 1 {
      return cx.fail(Fail::new(
        format!("c22|tx-count|{kind}"),
        format!("step {n}: `{command}` succeeded with {} transactions broadcast", txs.len()),
      ));
    }
    let tx = &txs[0];
    // rune balances entering the transaction
    let mut input_runes: BTreeMap<Rune, u128> = BTreeMap::new();
    for input in &tx.input {
      if let Some(state) = run.pre.get(&input.previous_output) {
        for (rune, amount) in &state.runes {
          *input_runes.entry(*rune).or_default() += amount;
        }
      }
    }
    env.mine(1).map_err(harness("mine"))?;
    let txid = tx.compute_txid();
    // where ord's rune rules put them
    let mut to_script: BTreeMap<(bitcoin::ScriptBuf, Rune), u128> = BTreeMap::new();
    let mut to_wallet: BTreeMap<Rune, u128> = BTreeMap::new();
    let mut to_other: BTreeMap<Rune, u128> = BTreeMap::new();
    let recipients: BTreeSet<bitcoin::ScriptBuf> = run.requested.iter().map(|(s, _, _)| s.clone()).collect();
    for (vout, output) in tx.output.iter().enumerate() {
      if output.script_pubkey.is_op_return() {
        continue;
      }
      let state = env
        .output_state(&OutPoint {
          txid,
          vout: vout as u32,
        })
        .map_err(harness("output state"))?;
      for (rune, amount) in state.runes {
        if recipients.contains(&output.script_pubkey) {
          *to_script.entry((output.script_pubkey.clone(), rune)).or_default() += amount;
        } else if env.is_wallet_script(&output.script_pubkey) {
          *to_wallet.entry(rune).or_default() += amount;
        } else {
          *to_other.entry(rune).or_default() += amount;
        }
      }
    }
    let mut burned: BTreeMap<Rune, u128> = BTreeMap::new();
    for meta in &inventory.runes {
      let now = env.burned(meta).map_err(harness("burned"))?;
      let delta = now - burned_before[&meta.rune];
      if delta > 0 {
        burned.insert(meta.rune, delta);
      }
    }
    let name = |rune: &Rune| rune.to_string();
    // recipients get exactly what was asked
    let mut wanted: BTreeMap<(bitcoin::ScriptBuf, Rune), u128> = BTreeMap::new();
    for (script, rune, amount) in &run.requested {
      *wanted.entry((script.clone(), *rune)).or_default() += amount;
    }
    if wanted != to_script {
      let show = |m: &BTreeMap<(bitcoin::ScriptBuf, Rune), u128>| {
        m.iter()
          .map(|((s, r), a)| format!("{}…:{}={}", &s.to_hex_string()[..12], name(r), a))
          .collect::<Vec<_>>()
          .join(", ")
      };
      return cx.fail(Fail::new(
        format!("c22|recipient-amount|{kind}"),
        format!(
          "step {n}: `{command}`: recipients were to get [{}] but transaction {txid} gives them [{}]",
          show(&wanted),
          show(&to_script)
        ),
      ));
    }
    // burns: exactly the requested burn
    let mut wanted_burn: BTreeMap<Rune, u128> = BTreeMap::new();
    if let Some((rune, amount)) = run.requested_burn {
      wanted_burn.insert(rune, amount);
    }
    if wanted_burn != burned {
      return cx.fail(Fail::new(
        format!("c22|burned|{kind}"),
        format!(
          "step {n}: `{command}`: expected burns {:?}, transaction {txid} burned {:?}",
          wanted_burn.iter().map(|(r, a)| (name(r), *a)).collect::<Vec<_>>(),
          burned.iter().map(|(r, a)| (name(r), *a)).collect::<Vec<_>>()
        ),
      ));
    }
    if !to_other.is_empty() {
      return cx.fail(Fail::new(
        format!("c22|stray|{kind}"),
        format!(
          "step {n}: `{command}`: transaction {txid} leaves runes {:?} on outputs that are neither a recipient nor the wallet's",
          to_other.iter().map(|(r, a)| (name(r), *a)).collect::<Vec<_>>()
        ),
      ));
    }
    // everything else returns to the wallet
    let mut expected_change = input_runes.clone();
    for ((_, rune), amount) in &wanted {
      let e = expected_change.entry(*rune).or_default();
      *e = e.saturating_sub(*amount);
    }
    for (rune, amount) in &wanted_burn {
      let e = expected_change.entry(*rune).or_default();
      *e = e.saturating_sub(*amount);
    }
    expected_change.retain(|_, a| *a > 0);
    if expected_change != to_wallet {
      return cx.fail(Fail::new(
        format!("c22|change|{kind}"),
        format!(
          "step {n}: `{command}`: inputs carried {:?}; after the requested amounts {:?} should return to the wallet but {:?} did",
          input_runes.iter().map(|(r, a)| (name(r), *a)).collect::<Vec<_>>(),
          expected_change.iter().map(|(r, a)| (name(r), *a)).collect::<Vec<_>>(),
          to_wallet.iter().map(|(r, a)| (name(r), *a)).collect::<Vec<_>>()
        ),
      ));
    }
    cx.label(&format!("moved:{kind}"));
    if input_runes.len() > 1 {
      cx.label("several-runes-in-inputs");
    }
    if tx.input.iter().filter(|i| run.subject.contains(&i.previous_output)).count() > 1 {
      cx.label("several-runic-inputs");
    }
    if !expected_change.is_empty() {
      cx.label("rune-change");
    } else {
      cx.label("exact-coverage");
    }
    cx.nontrivial(fingerprint(&(case, n)));
    cx.sample(6, || {
      json!({
        "command": command,
        "inputs_carried": input_runes.iter().map(|(r, a)| (name(r), a.to_string())).collect::<BTreeMap<_, _>>(),
        "returned_to_wallet": to_wallet.iter().map(|(r, a)| (name(r), a.to_string())).collect::<BTreeMap<_, _>>(),
      })
    });
  }
  Ok(())
}

pub fn c22(s: &mut Session) -> Meta {
  let t = s.tier();
  s.run_part(
    Part::new("rune-commands", t.pick(160, 2400), move || case_strategy(5, 5, 1), c22_check)
      .shrink_iters(60)
      .timeout(600),
  );
  let max_outputs = t.pick(5, 12);
  s.run_part(
    Part::new("split-construction", t.pick(40_000, 600_000), move || split_case(max_outputs), c22_split_check).shrink_iters(2000),
  );
  Meta {
    level: "exploration",
    rule: "Part split-construction: the split transaction constructor (Split::build_transaction through hook H7) on generated inventories (0..6 runic outputs holding 1..3 of up to 4 runes, amounts up to 2^100) and split files (0..5, thorough ..12, recipients over 22 address types, 0..3 rune amounts each: zero, one, fraction, everything left, more than left); the resulting transaction is evaluated with an independent implementation of the runes transfer rules (reference runestone decoder + edict allocation): recipients get exactly the requested amounts, the rest of what the inputs carry goes to the change script, nothing is burned or stranded, inputs are distinct wallet outputs, and a file containing a zero amount is rejected. Part rune-commands: each case builds a wallet on the mock node from generated holdings (up to 3 etched runes with divisibility 0..38 and premines from 1 to u128::MAX/4; 2..9 wallet outputs holding 1..3 runes each, several outputs per rune, some also inscribed) and runs the real `ord wallet send <amount:RUNE>`, `burn <amount:RUNE>` and `split --splits` (1..4 recipients, 0..3 runes each) commands as subprocesses against a live `ord server`; requested amounts are zero, one, a fraction of, exactly, and more than the spendable balance. Oracle after mining the broadcast (or --dry-run) transaction: per the index's rune balances, each recipient script holds exactly the requested amount of each rune and nothing else, burned supply grew by exactly the requested burn and by nothing for any other rune, no rune landed on a third-party output, and every other rune balance the inputs carried is on outputs paying wallet addresses; a command asking for zero units must exit non-zero without broadcasting. Non-trivial = an accepted command whose transaction was mined and audited, or a zero request that was rejected; distinct by (case, step).",
    assumptions: &[
      "rune balances after the transaction are read from ord's own index (its conformance to the runes rules is C08-C11)",
    ],
    required_labels: &[
      "moved:send-rune",
      "moved:burn-rune",
      "moved:split",
      "zero-request:send-rune",
      "zero-request:burn-rune",
      "zero-request:split",
      "several-runes-in-inputs",
      "several-runic-inputs",
      "rune-change",
      "exact-coverage",
      "split-hook:built",
      "split-hook:zero-rejected",
      "split-hook:shortfall",
      "split-hook:several-inputs",
      "split-hook:rune-change",
      "split-hook:exact",
      "split-hook:several-runes",
      "split-hook:several-recipient-amounts",
    ],
  }
}

// ------------------------------------------------- C22: split via hook H7

#[derive(Clone, Debug, Serialize, Deserialize, PartialEq, Eq, Hash)]
pub struct SplitCase {
  /// per wallet output: (rune index, amount)
  pub balances: Vec<Vec<(u8, U128)>>,
  /// recipients: (address index, value, runes: (rune index, amount class))
  pub outputs: Vec<(u8, Option<u64>, Vec<(u8, RuneAmt)>)>,
  pub postage: Option<u64>,
  pub no_limit: bool,
  pub nrunes: u8,
}

fn split_case(max_outputs: usize) -> BoxedStrategy<SplitCase> {
  (
    1u8..=4,
    proptest::collection::vec(
      proptest::collection::vec(
        (0u8..4, prop_oneof![1u128..20, 1u128..1_000_000, (1u128 << 64)..(1u128 << 100)].prop_map(U128)),
        1..=3,
      ),
      0..=6,
    ),
    proptest::collection::vec(
      (
        0u8..22,
        proptest::option::weighted(0.5, prop_oneof![1u64..700, 330u64..100_000]),
        proptest::collection::vec((0u8..4, rune_amt(1)), 0..=3),
      ),
      0..=max_outputs,
    ),
    proptest::option::weighted(0.4, prop_oneof![1u64..700, 330u64..50_000]),
    any::<bool>(),
  )
    .prop_map(|(nrunes, balances, outputs, postage, no_limit)| SplitCase {
      balances,
      outputs,
      postage,
      no_limit,
      nrunes,
    })
    .boxed()
}

/// The runes transfer rules for a transaction without etching or mint,
/// independent of ord: returns per-output balances and what was burned.
pub fn ref_transfer(
  mut unallocated: BTreeMap<(u64, u32), u128>,
  tx: &Transaction,
) -> (Vec<BTreeMap<(u64, u32), u128>>, BTreeMap<(u64, u32), u128>) {
  use crate::props::runestone::{RefArtifact, ref_decipher};
  let n = tx.output.len();
  let mut allocated: Vec<BTreeMap<(u64, u32), u128>> = vec![BTreeMap::new(); n];
  let mut burned: BTreeMap<(u64, u32), u128> = BTreeMap::new();
  let scripts: Vec<Vec<u8>> = tx.output.iter().map(|o| o.script_pubkey.to_bytes()).collect();
  let is_op_return = |i: usize| scripts[i].first() == Some(&0x6a);
  let artifact = ref_decipher(&scripts);
  let mut pointer = None;
  match artifact {
    Some(RefArtifact::Cenotaph { .. }) => {
      for (id, amount) in unallocated {
        *burned.entry(id).or_default() += amount;
      }
      return (allocated, burned);
    }
    Some(RefArtifact::Runestone { edicts, pointer: p, .. }) => {
      pointer = p;
      for (block, txi, amount, output) in edicts {
        let id = (block, txi);
        let Some(balance) = unallocated.get_mut(&id) else {
          continue;
        };
        let output = output as usize;
        let mut allocate = |balance: &mut u128, amount: u128, output: usize, allocated: &mut Vec<BTreeMap<(u64, u32), u128>>| {
          if amount > 0 {
            *balance -= amount;
            *allocated[output].entry(id).or_default() += amount;
          }
        };
        if output == n {
          let destinations: Vec<usize> = (0..n).filter(|i| !is_op_return(*i)).collect();
          if !destinations.is_empty() {
            if amount == 0 {
              let share = *balance / destinations.len() as u128;
              let remainder = (*balance % destinations.len() as u128) as usize;
              for (i, output) in destinations.iter().enumerate() {
                let amount = if i < remainder { share + 1 } else { share };
                allocate(balance, amount, *output, &mut allocated);
              }
            } else {
              for output in destinations {
                let amount = amount.min(*balance);
                allocate(balance, amount, output, &mut allocated);
              }
            }
          }
        } else if output < n {
          let amount = if amount == 0 { *balance } else { amount.min(*balance) };
          allocate(balance, amount, output, &mut allocated);
        }
      }
    }
    None => {}
  }
  let default_output = pointer
    .map(|p| p as usize)
    .or_else(|| (0..n).find(|i| !is_op_return(*i)));
  for (id, amount) in unallocated {
    if amount == 0 {
      continue;
    }
    match default_output {
      Some(output) if output < n => *allocated[output].entry(id).or_default() += amount,
      _ => *burned.entry(id).or_default() += amount,
    }
  }
  for i in 0..n {
    if is_op_return(i) {
      for (id, amount) in std::mem::take(&mut allocated[i]) {
        *burned.entry(id).or_default() += amount;
      }
    }
  }
  (allocated, burned)
}

fn c22_split_check(case: &SplitCase, cx: &Cx) -> CheckResult {
  use {
    crate::props::builder::address_pool,
    bitcoin::{Txid, hashes::Hash},
    ordinals::{RuneId, SpacedRune},
  };
  let pool = address_pool();
  let nrunes = usize::from(case.nrunes);
  let runes: Vec<(Rune, RuneId)> = (0..nrunes)
    .map(|k| {
      (
        Rune(crate::walletenv::rune_base() + k as u128 * 13),
        RuneId {
          block: 10 + k as u64 * 3,
          tx: 1 + k as u32,
        },
      )
    })
    .collect();
  let mut balances: BTreeMap<OutPoint, BTreeMap<Rune, u128>> = BTreeMap::new();
  for (i, output) in case.balances.iter().enumerate() {
    let outpoint = OutPoint {
      txid: Txid::from_byte_array([i as u8 + 1; 32]),
      vout: i as u32 % 3,
    };
    let entry = balances.entry(outpoint).or_default();
    for (rune, amount) in output {
      let (rune, _) = runes[usize::from(*rune) % nrunes];
      let e = entry.entry(rune).or_insert(0);
      *e = e.saturating_add(amount.0);
    }
  }
  let total = |rune: Rune| -> u128 { balances.values().map(|m| m.get(&rune).copied().unwrap_or(0)).sum() };
  let mut remaining: BTreeMap<Rune, u128> = runes.iter().map(|(r, _)| (*r, total(*r))).collect();
  let change_address = pool[22 % pool.len()].clone();
  let mut outputs = Vec::new();
  let mut zero = false;
  let mut over = false;
  let mut wanted: BTreeMap<(bitcoin::ScriptBuf, Rune), u128> = BTreeMap::new();
  for (address, value, wants) in &case.outputs {
    let mut address = pool[usize::from(*address) % pool.len()].clone();
    if address == change_address {
      address = pool[0].clone();
    }
    let mut map = BTreeMap::new();
    for (rune, amount) in wants {
      let (rune, _) = runes[usize::from(*rune) % nrunes];
      if map.contains_key(&rune) {
        continue;
      }
      let available = remaining[&rune];
      let amount = resolve(amount, available).min(u128::MAX / 16);
      if amount == 0 {
        zero = true;
      }
      if amount > available {
        over = true;
      }
      remaining.insert(rune, available.saturating_sub(amount));
      map.insert(rune, amount);
      *wanted.entry((address.script_pubkey(), rune)).or_default() += amount;
    }
    outputs.push((address, value.map(Amount::from_sat), map));
  }
  let rune_info: BTreeMap<Rune, (u8, RuneId, SpacedRune, Option<char>)> = runes
    .iter()
    .map(|(rune, id)| (*rune, (2u8, *id, SpacedRune { rune: *rune, spacers: 0 }, Some('$'))))
    .collect();
  let id_of: BTreeMap<(u64, u32), Rune> = runes.iter().map(|(r, id)| ((id.block, id.tx), *r)).collect();
  let result = ord::verif::split_build_transaction(
    case.no_limit,
    balances.clone(),
    &change_address,
    case.postage.map(Amount::from_sat),
    outputs.clone(),
    rune_info,
  );
  let tx = match result {
    Err(message) => {
      cx.label("split-hook:rejected");
      if zero {
        cx.label("split-hook:zero-rejected");
        cx.nontrivial(fingerprint(&(case, "zero")));
      }
      if message.contains("need") {
        cx.label("split-hook:shortfall");
      }
      return Ok(());
    }
    Ok(tx) => tx,
  };
  if zero {
    return cx.fail(Fail::new(
      "c22|split-hook|zero-accepted",
      format!("split file with a zero rune amount was accepted: {outputs:?}"),
    ));
  }
  // inputs: distinct known outputs
  let mut carried: BTreeMap<(u64, u32), u128> = BTreeMap::new();
  let mut seen = BTreeSet::new();
  for input in &tx.input {
    let Some(held) = balances.get(&input.previous_output) else {
      return cx.fail(Fail::new(
        "c22|split-hook|unknown-input",
        format!("split transaction spends {} which is not a runic wallet output", input.previous_output),
      ));
    };
    if !seen.insert(input.previous_output) {
      return cx.fail(Fail::new(
        "c22|split-hook|duplicate-input",
        format!("split transaction spends {} twice", input.previous_output),
      ));
    }
    for (rune, amount) in held {
      let id = runes.iter().find(|(r, _)| r == rune).unwrap().1;
      *carried.entry((id.block, id.tx)).or_default() += amount;
    }
  }
  let (allocated, burned) = ref_transfer(carried.clone(), &tx);
  let mut got: BTreeMap<(bitcoin::ScriptBuf, Rune), u128> = BTreeMap::new();
  let mut to_change: BTreeMap<Rune, u128> = BTreeMap::new();
  let recipient_scripts: BTreeSet<bitcoin::ScriptBuf> = outputs.iter().map(|(a, _, _)| a.script_pubkey()).collect();
  for (i, output) in tx.output.iter().enumerate() {
    for (id, amount) in &allocated[i] {
      let rune = id_of[id];
      if recipient_scripts.contains(&output.script_pubkey) {
        *got.entry((output.script_pubkey.clone(), rune)).or_default() += amount;
      } else if output.script_pubkey == change_address.script_pubkey() {
        *to_change.entry(rune).or_default() += amount;
      } else {
        return cx.fail(Fail::new(
          "c22|split-hook|stray",
          format!("split transaction leaves {amount} of {rune} on output {i} which is neither a recipient nor change"),
        ));
      }
    }
  }
  wanted.retain(|_, a| *a > 0);
  if !burned.is_empty() {
    return cx.fail(Fail::new(
      "c22|split-hook|burned",
      format!("split transaction burns {burned:?}; requested {outputs:?} from {balances:?}"),
    ));
  }
  if wanted != got {
    return cx.fail(Fail::new(
      "c22|split-hook|recipient-amount",
      format!(
        "split recipients were to get {:?} but get {:?}; tx outputs {:?}",
        wanted.iter().map(|((s, r), a)| (s.to_hex_string(), r.to_string(), *a)).collect::<Vec<_>>(),
        got.iter().map(|((s, r), a)| (s.to_hex_string(), r.to_string(), *a)).collect::<Vec<_>>(),
        tx.output
      ),
    ));
  }
  let mut expected_change: BTreeMap<Rune, u128> = BTreeMap::new();
  for (id, amount) in &carried {
    *expected_change.entry(id_of[id]).or_default() += amount;
  }
  for ((_, rune), amount) in &wanted {
    let e = expected_change.entry(*rune).or_default();
    *e -= amount;
  }
  expected_change.retain(|_, a| *a > 0);
  if expected_change != to_change {
    return cx.fail(Fail::new(
      "c22|split-hook|change",
      format!("split change should be {expected_change:?} but is {to_change:?}"),
    ));
  }
  let _ = over;
  cx.label("split-hook:built");
  if tx.input.len() > 1 {
    cx.label("split-hook:several-inputs");
  }
  if !expected_change.is_empty() {
    cx.label("split-hook:rune-change");
  } else if !wanted.is_empty() {
    cx.label("split-hook:exact");
  }
  if carried.len() > 1 {
    cx.label("split-hook:several-runes");
  }
  if wanted.len() > 1 {
    cx.label("split-hook:several-recipient-amounts");
    cx.nontrivial(fingerprint(case));
  }
  cx.sample(4, || {
    json!({
      "inputs": tx.input.len(),
      "outputs": tx.output.len(),
      "recipient_amounts": wanted.len(),
      "change_runes": expected_change.len(),
    })
  });
  Ok(())
}
