//! C22, C23: the real `ord wallet` commands against a generated wallet
//! inventory, observed at the mock node (mempool, lock set) and at the
//! index (rune balances after mining).

use {
  crate::{
    node::IndexConfig,
    runner::{CheckResult, Cx, Fail, Meta, Part, Session, fingerprint},
    util::{U128, pick_index},
    walletenv::{
      Inventory, InventorySpec, OutState, RuneSpec, WalletEnv, WalletOutSpec, decimal_string,
      foreign_address,
    },
  },
  bitcoin::{Amount, OutPoint, Psbt, Transaction},
  ordinals::Rune,
  proptest::prelude::*,
  serde::{Deserialize, Serialize},
  serde_json::json,
  std::collections::{BTreeMap, BTreeSet},
};

fn harness<E: std::fmt::Display>(what: &str) -> impl Fn(E) -> Fail + '_ {
  move |e| Fail::new("HARNESS-FAULT", format!("{what}: {e:#}"))
}

#[derive(Clone, Debug, Serialize, Deserialize, PartialEq, Eq, Hash)]
pub enum RuneAmt {
  Zero,
  One,
  Frac(u16),
  Full,
  Over(u16),
}

#[derive(Clone, Debug, Serialize, Deserialize, PartialEq, Eq, Hash)]
pub struct SplitOut {
  pub dest: u8,
  pub value: Option<u64>,
  pub runes: Vec<(u16, RuneAmt)>,
}

#[derive(Clone, Debug, Serialize, Deserialize, PartialEq, Eq, Hash)]
pub enum Cmd {
  SendSats { frac: u16, over: bool },
  SendRune { rune: u16, amount: RuneAmt, postage: Option<u64> },
  BurnRune { rune: u16, amount: RuneAmt },
  Mint { rune: u16, postage: Option<u64>, to_foreign: bool },
  Split { outputs: Vec<SplitOut>, postage: Option<u64> },
  OfferCreate { which: u16, amount: u64 },
}

impl Cmd {
  pub fn kind(&self) -> &'static str {
    match self {
      Cmd::SendSats { .. } => "send-sats",
      Cmd::SendRune { .. } => "send-rune",
      Cmd::BurnRune { .. } => "burn-rune",
      Cmd::Mint { .. } => "mint",
      Cmd::Split { .. } => "split",
      Cmd::OfferCreate { .. } => "offer-create",
    }
  }
}

#[derive(Clone, Debug, Serialize, Deserialize, PartialEq, Eq, Hash)]
pub struct Step {
  pub cmd: Cmd,
  pub fee_rate: u8,
  pub dry_run: bool,
}

#[derive(Clone, Debug, Serialize, Deserialize, PartialEq, Eq, Hash)]
pub struct WalletCase {
  pub inventory: InventorySpec,
  pub steps: Vec<Step>,
  pub salt: u64,
}

// ---------------------------------------------------------------- generators

fn rune_amt(zero_weight: u32) -> impl Strategy<Value = RuneAmt> {
  prop_oneof![
    zero_weight => Just(RuneAmt::Zero),
    1 => Just(RuneAmt::One),
    5 => any::<u16>().prop_map(RuneAmt::Frac),
    3 => Just(RuneAmt::Full),
    1 => (0u16..5).prop_map(RuneAmt::Over),
  ]
}

fn split_amt() -> impl Strategy<Value = RuneAmt> {
  prop_oneof![
    1 => Just(RuneAmt::Zero),
    3 => Just(RuneAmt::One),
    12 => any::<u16>().prop_map(RuneAmt::Frac),
    3 => Just(RuneAmt::Full),
    1 => (0u16..5).prop_map(RuneAmt::Over),
  ]
}

fn rune_spec() -> impl Strategy<Value = RuneSpec> {
  (
    prop_oneof![Just(0u8), Just(0u8), 1u8..=8, Just(18u8), Just(38u8)],
    prop_oneof![
      Just(1u128),
      2u128..1000,
      1000u128..10_000_000,
      (u64::MAX as u128 - 5)..(u64::MAX as u128 + 5),
      Just(u128::MAX / 4),
    ],
    proptest::option::weighted(0.5, (1u128..1000, 1u128..100)),
    prop_oneof![Just(0u32), Just(0u32), 0u32..4096],
  )
    .prop_map(|(divisibility, premine, mint, spacers)| RuneSpec {
      divisibility,
      premine: U128(premine),
      mint: mint.map(|(a, c)| (U128(a), U128(c))),
      spacers,
    })
}

fn wallet_out() -> impl Strategy<Value = WalletOutSpec> {
  (
    // kind: 0 cardinal, 1 inscribed, 2 runic, 3 both
    prop_oneof![5 => Just(0u8), 3 => Just(1u8), 4 => Just(2u8), 1 => Just(3u8)],
    prop_oneof![
      330u64..20_000,
      20_000u64..2_000_000,
      2_000_000u64..50_000_000,
    ],
    1u8..=3,
    any::<bool>(),
    proptest::collection::vec((0usize..3, prop_oneof![1u128..50, 1u128..100_000, any::<u128>()]), 1..=3),
  )
    .prop_map(|(kind, value, inscriptions, spread, runes)| {
      // non-cardinal outputs are made valuable: the mock node funds
      // largest-first, so an unlocked one would be the first it takes
      let value = if kind == 0 { value } else { value.saturating_mul(3).max(10_000) };
      WalletOutSpec {
        value,
        inscriptions: if kind == 1 || kind == 3 { inscriptions } else { 0 },
        spread,
        runes: if kind >= 2 { runes.into_iter().map(|(r, a)| (r, U128(a))).collect() } else { Vec::new() },
      }
    })
}

fn inventory() -> impl Strategy<Value = InventorySpec> {
  (
    prop_oneof![3 => 1usize..=1, 3 => 2usize..=2, 2 => 3usize..=3].prop_flat_map(|n| proptest::collection::vec(rune_spec(), n)),
    proptest::collection::vec(wallet_out(), 3..=10),
    proptest::collection::vec(10_000u64..1_000_000, 0..=2),
  )
    .prop_map(|(runes, outputs, foreign_inscriptions)| InventorySpec {
      runes,
      outputs,
      foreign_inscriptions,
    })
}

fn split_out() -> impl Strategy<Value = SplitOut> {
  (
    10u8..14,
    proptest::option::weighted(0.5, 330u64..20_000),
    proptest::collection::vec((0u16..3, split_amt()), 0..=3),
  )
    .prop_map(|(dest, value, runes)| SplitOut { dest, value, runes })
}

fn cmd(rune_weight: u32, other_weight: u32) -> impl Strategy<Value = Cmd> {
  let postage = || proptest::option::weighted(0.4, prop_oneof![330u64..1000, 1000u64..50_000]);
  prop_oneof![
    other_weight => (any::<u16>(), proptest::bool::weighted(0.25)).prop_map(|(frac, over)| Cmd::SendSats { frac, over }),
    rune_weight => (0u16..3, rune_amt(3), postage()).prop_map(|(rune, amount, postage)| Cmd::SendRune { rune, amount, postage }),
    rune_weight => (0u16..3, rune_amt(3)).prop_map(|(rune, amount)| Cmd::BurnRune { rune, amount }),
    other_weight => (0u16..3, postage(), any::<bool>()).prop_map(|(rune, postage, to_foreign)| Cmd::Mint { rune, postage, to_foreign }),
    rune_weight => (proptest::collection::vec(split_out(), 1..=4), postage()).prop_map(|(outputs, postage)| Cmd::Split { outputs, postage }),
    other_weight => (any::<u16>(), 1000u64..5_000_000).prop_map(|(which, amount)| Cmd::OfferCreate { which, amount }),
  ]
}

fn step(rune_weight: u32, other_weight: u32) -> impl Strategy<Value = Step> {
  (cmd(rune_weight, other_weight), prop_oneof![Just(0u8), Just(1u8), 2u8..6], proptest::bool::weighted(0.25))
    .prop_map(|(cmd, fee_rate, dry_run)| Step { cmd, fee_rate, dry_run })
}

fn case_strategy(max_steps: usize, rune_weight: u32, other_weight: u32) -> BoxedStrategy<WalletCase> {
  (
    inventory(),
    proptest::collection::vec(step(rune_weight, other_weight), 1..=max_steps),
    any::<u64>(),
  )
    .prop_map(|(inventory, steps, salt)| WalletCase { inventory, steps, salt })
    .boxed()
}

// ------------------------------------------------------------------ driver

pub struct StepRun {
  pub pre: BTreeMap<OutPoint, OutState>,
  pub ok: bool,
  pub stderr: String,
  pub stdout: String,
  /// transactions the command put into the mempool
  pub broadcast: Vec<Transaction>,
  /// transaction of a PSBT the command printed without broadcasting
  pub offered: Option<Transaction>,
  pub subject: BTreeSet<OutPoint>,
  pub args: Vec<String>,
  /// resolved request: (rune, amount) pairs per recipient script
  pub requested: Vec<(bitcoin::ScriptBuf, Rune, u128)>,
  pub requested_burn: Option<(Rune, u128)>,
  pub zero_request: bool,
  pub skipped: bool,
}

fn spendable(pre: &BTreeMap<OutPoint, OutState>, rune: Rune) -> u128 {
  pre
    .values()
    .filter(|o| o.inscriptions.is_empty())
    .map(|o| o.runes.get(&rune).copied().unwrap_or(0))
    .fold(0u128, |a, b| a.saturating_add(b))
}

fn resolve(amount: &RuneAmt, available: u128) -> u128 {
  match amount {
    RuneAmt::Zero => 0,
    RuneAmt::One => 1,
    RuneAmt::Frac(f) => ((available / 65536).saturating_mul(u128::from(*f)) + (available % 65536) * u128::from(*f) / 65536).max(1),
    RuneAmt::Full => available,
    RuneAmt::Over(x) => available.saturating_add(1 + u128::from(*x)),
  }
}

pub fn run_step(env: &mut WalletEnv, inventory: &Inventory, step: &Step) -> Result<StepRun, Fail> {
  // locks live in the node's memory only: every command starts from none
  env.clear_locks();
  let pre = env.snapshot().map_err(harness("snapshot"))?;
  let fee_rate = step.fee_rate.to_string();
  let mut args: Vec<String> = Vec::new();
  let mut files: Vec<(&str, Vec<u8>)> = Vec::new();
  let mut subject = BTreeSet::new();
  let mut requested = Vec::new();
  let mut requested_burn = None;
  let mut zero_request = false;
  let mut skipped = false;
  let nrunes = inventory.runes.len();
  match &step.cmd {
    Cmd::SendSats { frac, over } => {
      let cardinal: u64 = pre.values().filter(|o| o.cardinal()).map(|o| o.value).sum();
      let amount = if *over {
        cardinal + 1000 + u64::from(*frac)
      } else {
        ((u128::from(cardinal) * u128::from(*frac)) >> 16) as u64
      }
      .max(330);
      args.extend(["send".into(), "--fee-rate".into(), fee_rate.clone()]);
      if step.dry_run {
        args.push("--dry-run".into());
      }
      args.push(foreign_address(20).to_string());
      args.push(format!("{amount}sat"));
    }
    Cmd::SendRune { rune, amount, postage } => {
      let meta = &inventory.runes[usize::from(*rune) % nrunes];
      let amount = resolve(amount, spendable(&pre, meta.rune));
      zero_request = amount == 0;
      for (outpoint, state) in &pre {
        if state.inscriptions.is_empty() && state.runes.get(&meta.rune).copied().unwrap_or(0) > 0 {
          subject.insert(*outpoint);
        }
      }
      args.extend(["send".into(), "--fee-rate".into(), fee_rate.clone()]);
      if step.dry_run {
        args.push("--dry-run".into());
      }
      if let Some(postage) = postage {
        args.push("--postage".into());
        args.push(format!("{postage}sat"));
      }
      let destination = foreign_address(21);
      args.push(destination.to_string());
      args.push(format!("{}:{}", decimal_string(amount, meta.divisibility), meta.spaced));
      requested.push((destination.script_pubkey(), meta.rune, amount));
    }
    Cmd::BurnRune { rune, amount } => {
      let meta = &inventory.runes[usize::from(*rune) % nrunes];
      let amount = resolve(amount, spendable(&pre, meta.rune));
      zero_request = amount == 0;
      for (outpoint, state) in &pre {
        if state.inscriptions.is_empty() && state.runes.get(&meta.rune).copied().unwrap_or(0) > 0 {
          subject.insert(*outpoint);
        }
      }
      args.extend(["burn".into(), "--fee-rate".into(), fee_rate.clone()]);
      if step.dry_run {
        args.push("--dry-run".into());
      }
      args.push(format!("{}:{}", decimal_string(amount, meta.divisibility), meta.spaced));
      requested_burn = Some((meta.rune, amount));
    }
    Cmd::Mint { rune, postage, to_foreign } => {
      let mintable: Vec<_> = inventory.runes.iter().filter(|r| r.mint.is_some()).collect();
      let meta = if mintable.is_empty() {
        &inventory.runes[usize::from(*rune) % nrunes]
      } else {
        mintable[usize::from(*rune) % mintable.len()]
      };
      args.extend(["mint".into(), "--fee-rate".into(), fee_rate.clone(), "--rune".into(), meta.spaced.to_string()]);
      if let Some(postage) = postage {
        args.push("--postage".into());
        args.push(format!("{postage}sat"));
      }
      if *to_foreign {
        args.push("--destination".into());
        args.push(foreign_address(22).to_string());
      }
    }
    Cmd::Split { outputs, postage } => {
      let mut remaining: BTreeMap<Rune, u128> = inventory
        .runes
        .iter()
        .map(|m| (m.rune, spendable(&pre, m.rune)))
        .collect();
      let mut yaml = String::from("outputs:\n");
      let mut wanted: BTreeSet<Rune> = BTreeSet::new();
      for output in outputs {
        let destination = foreign_address(output.dest);
        yaml.push_str(&format!("- address: {destination}\n"));
        if let Some(value) = output.value {
          yaml.push_str(&format!("  value: {value} sat\n"));
        }
        let mut per_rune: BTreeMap<Rune, u128> = BTreeMap::new();
        let mut lines = String::new();
        for (rune, amount) in &output.runes {
          let meta = &inventory.runes[usize::from(*rune) % nrunes];
          if per_rune.contains_key(&meta.rune) {
            continue;
          }
          let available = remaining[&meta.rune];
          let amount = resolve(amount, available);
          if amount == 0 {
            zero_request = true;
          }
          remaining.insert(meta.rune, available.saturating_sub(amount));
          per_rune.insert(meta.rune, amount);
          wanted.insert(meta.rune);
          lines.push_str(&format!("    {}: {}\n", meta.spaced, decimal_string(amount, meta.divisibility)));
          requested.push((destination.script_pubkey(), meta.rune, amount));
        }
        if lines.is_empty() {
          yaml.push_str("  runes: {}\n");
        } else {
          yaml.push_str("  runes:\n");
          yaml.push_str(&lines);
        }
      }
      for (outpoint, state) in &pre {
        if state.inscriptions.is_empty() && wanted.iter().any(|r| state.runes.get(r).copied().unwrap_or(0) > 0) {
          subject.insert(*outpoint);
        }
      }
      files.push(("splits.yaml", yaml.into_bytes()));
      args.extend(["split".into(), "--fee-rate".into(), fee_rate.clone(), "--splits".into(), "splits.yaml".into()]);
      if step.dry_run {
        args.push("--dry-run".into());
      }
      if let Some(postage) = postage {
        args.push("--postage".into());
        args.push(format!("{postage}sat"));
      }
    }
    Cmd::OfferCreate { which, amount } => {
      if inventory.foreign_inscriptions.is_empty() {
        skipped = true;
      } else {
        let (id, _, _) = inventory.foreign_inscriptions[pick_index(*which, inventory.foreign_inscriptions.len())];
        args.extend([
          "offer".into(),
          "create".into(),
          "--inscription".into(),
          id.to_string(),
          "--amount".into(),
          format!("{amount}sat"),
          "--fee-rate".into(),
          fee_rate.clone(),
        ]);
      }
    }
  }
  if skipped {
    return Ok(StepRun {
      pre,
      ok: false,
      stderr: String::new(),
      stdout: String::new(),
      broadcast: Vec::new(),
      offered: None,
      subject,
      args,
      requested,
      requested_burn,
      zero_request,
      skipped,
    });
  }
  let before: BTreeSet<_> = env.mempool().iter().map(|tx| tx.compute_txid()).collect();
  let arg_refs: Vec<&str> = args.iter().map(String::as_str).collect();
  let started = std::time::Instant::now();
  let output = env.wallet(&arg_refs, &files).map_err(harness("ord wallet"))?;
  if std::env::var_os("ORDVERIF_DEBUG").is_some() {
    eprintln!(
      "[debug] {:?} ord wallet {} -> {:?} {}",
      started.elapsed(),
      args.join(" "),
      output.code,
      output.stderr.lines().last().unwrap_or("")
    );
    if output.stderr.contains("panicked") {
      eprintln!("[debug-panic] {}", output.stderr.replace('\n', " | "));
    }
  }
  let broadcast: Vec<Transaction> = env
    .mempool()
    .into_iter()
    .filter(|tx| !before.contains(&tx.compute_txid()))
    .collect();
  let mut offered = None;
  if output.ok() && (step.dry_run || matches!(step.cmd, Cmd::OfferCreate { .. })) {
    if let Ok(value) = serde_json::from_str::<serde_json::Value>(&output.stdout) {
      if let Some(psbt) = value.get("psbt").and_then(|p| p.as_str()) {
        use base64::Engine;
        if let Ok(bytes) = base64::engine::general_purpose::STANDARD.decode(psbt) {
          if let Ok(psbt) = Psbt::deserialize(&bytes) {
            offered = Some(psbt.unsigned_tx);
          }
        }
      }
    }
  }
  Ok(StepRun {
    pre,
    ok: output.ok(),
    stderr: output.stderr,
    stdout: output.stdout,
    broadcast,
    offered,
    subject,
    args,
    requested,
    requested_burn,
    zero_request,
    skipped,
  })
}

fn crashed(run: &StepRun) -> bool {
  run.stderr.contains("panicked at") && (run.stderr.contains("src/") || run.stderr.contains("/repo/"))
}

fn index_config() -> IndexConfig {
  IndexConfig {
    sats: false,
    ..IndexConfig::default()
  }
}

// --------------------------------------------------------------------- C23

fn c23_check(case: &WalletCase, cx: &Cx) -> CheckResult {
  let started = std::time::Instant::now();
  let mut env = WalletEnv::new(&index_config()).map_err(harness("env"))?;
  let t_env = started.elapsed();
  let inventory = env.build_inventory(&case.inventory, case.salt).map_err(harness("inventory"))?;
  if std::env::var_os("ORDVERIF_DEBUG").is_some() {
    eprintln!("[debug] env {:?} inventory {:?}", t_env, started.elapsed() - t_env);
  }
  for (n, step) in case.steps.iter().enumerate() {
    let run = run_step(&mut env, &inventory, step)?;
    if run.skipped {
      continue;
    }
    let kind = step.cmd.kind();
    cx.label(&format!("cmd:{kind}"));
    if run.ok {
      cx.label(&format!("ok:{kind}"));
      if step.dry_run && !matches!(step.cmd, Cmd::Mint { .. } | Cmd::OfferCreate { .. }) {
        cx.label(&format!("ok-dry-run:{kind}"));
      }
    }
    let txs: Vec<&Transaction> = run.broadcast.iter().chain(run.offered.iter()).collect();
    let mut selected_by_node = 0u32;
    let mut smallest_selected = u64::MAX;
    for tx in &txs {
      for input in &tx.input {
        let Some(state) = run.pre.get(&input.previous_output) else {
          continue;
        };
        if run.subject.contains(&input.previous_output) {
          continue;
        }
        if !state.cardinal() {
          let what = if !state.inscriptions.is_empty() && !state.runes.is_empty() {
            "inscribed-and-runic"
          } else if !state.inscriptions.is_empty() {
            "inscribed"
          } else {
            "runic"
          };
          return cx.fail(Fail::new(
            format!("c23|spent|{kind}|{what}"),
            format!(
              "step {n}: `ord wallet {}` produced transaction {} spending {} which holds {:?} and is not the subject of the command",
              run.args.join(" "),
              tx.compute_txid(),
              input.previous_output,
              state
            ),
          ));
        }
        selected_by_node += 1;
        smallest_selected = smallest_selected.min(state.value);
      }
    }
    let locked = env.locked();
    let protected: Vec<(&OutPoint, &OutState)> = run
      .pre
      .iter()
      .filter(|(outpoint, state)| !state.cardinal() && !run.subject.contains(outpoint))
      .collect();
    if run.ok {
      for (outpoint, state) in &protected {
        if !locked.contains(outpoint) {
          return cx.fail(Fail::new(
            format!("c23|not-locked|{kind}"),
            format!(
              "step {n}: `ord wallet {}` succeeded but left {} ({:?}) unlocked at the node while it was funding",
              run.args.join(" "),
              outpoint,
              state
            ),
          ));
        }
      }
    }
    if !txs.is_empty() && selected_by_node > 0 {
      cx.label("node-added-inputs");
      let tempting = protected.iter().filter(|(_, s)| s.value > smallest_selected).count();
      if tempting > 0 {
        cx.label("tempting-noncardinal-present");
        cx.label(&format!("tempting:{kind}"));
        cx.nontrivial(fingerprint(&(case, n)));
        cx.sample(6, || {
          json!({
            "command": run.args.join(" "),
            "node_selected_inputs": selected_by_node,
            "protected_noncardinal_outputs": protected.len(),
            "of_which_more_valuable_than_a_selected_input": tempting,
          })
        });
      }
    }
    if !run.ok && run.stderr.contains("insufficient funds") && !protected.is_empty() {
      cx.label("insufficient-funds-with-noncardinals-held");
    }
    if crashed(&run) {
      cx.label("cli-panicked");
    }
    env.mine(1).map_err(harness("mine"))?;
  }
  Ok(())
}

pub fn c23(s: &mut Session) -> Meta {
  let t = s.tier();
  s.run_part(
    Part::new("node-funded-commands", t.pick(160, 2400), move || case_strategy(5, 2, 3), c23_check)
      .shrink_iters(60)
      .timeout(600),
  );
  Meta {
    level: "exploration",
    rule: "Each case builds a wallet on the mock node from generated holdings (2..9 outputs: cardinal, inscribed with 1..3 inscriptions on the same or different sats, runic with 1..3 of up to 3 etched runes, and both; inscribed/runic outputs are given larger values than cardinal ones because the mock node funds largest-first) and runs 1..5 real `ord wallet` commands (subprocess, live `ord server`): send <sats> (including more than the cardinal balance), send/burn <amount:RUNE> (zero, one, fractions, full, more than held), mint, split (1..4 recipients), offer create; fee rates 0..5, some --dry-run. The node's lock set is cleared before every command (locks are memory-only in bitcoind). Oracle: every input of every transaction the command broadcast (mock mempool) or printed as PSBT is, by the index's /output JSON taken before the command, either cardinal or a subject of the command (non-inscribed output holding the rune being sent/burnt/split); and after a successful command every inscribed or runic non-subject wallet output is in the node's lock set. Non-trivial = a command whose transaction got at least one node-selected input while the wallet held a non-subject inscribed or runic output more valuable than one of the selected inputs (the node would have preferred it had it not been locked); distinct by (case, step).",
    assumptions: &[
      "the mock node's fundrawtransaction (largest unlocked wallet output first) stands in for bitcoind's coin selection",
      "`ord wallet sweep` (needs a foreign private key) is not driven",
    ],
    required_labels: &[
      "ok:send-sats",
      "ok:send-rune",
      "ok:burn-rune",
      "ok:mint",
      "ok:split",
      "ok:offer-create",
      "ok-dry-run:send-sats",
      "ok-dry-run:send-rune",
      "ok-dry-run:burn-rune",
      "ok-dry-run:split",
      "tempting:send-sats",
      "tempting:send-rune",
      "tempting:mint",
      "tempting:split",
      "tempting:offer-create",
    ],
  }
}

// --------------------------------------------------------------------- C22

fn c22_check(case: &WalletCase, cx: &Cx) -> CheckResult {
  let mut env = WalletEnv::new(&index_config()).map_err(harness("env"))?;
  let inventory = env.build_inventory(&case.inventory, case.salt).map_err(harness("inventory"))?;
  for (n, step) in case.steps.iter().enumerate() {
    let kind = step.cmd.kind();
    if !matches!(step.cmd, Cmd::SendRune { .. } | Cmd::BurnRune { .. } | Cmd::Split { .. }) {
      continue;
    }
    let burned_before: BTreeMap<Rune, u128> = inventory
      .runes
      .iter()
      .map(|m| Ok((m.rune, env.burned(m)?)))
      .collect::<anyhow::Result<_>>()
      .map_err(harness("burned"))?;
    let run = run_step(&mut env, &inventory, step)?;
    cx.label(&format!("cmd:{kind}"));
    let command = format!("ord wallet {}", run.args.join(" "));
    if run.zero_request {
      cx.label(&format!("zero-request:{kind}"));
      if run.ok || !run.broadcast.is_empty() {
        return cx.fail(Fail::new(
          format!("c22|zero-accepted|{kind}"),
          format!(
            "step {n}: `{command}` asks for zero units of a rune and was accepted (exit ok={}, {} transaction(s) broadcast); stdout: {}",
            run.ok,
            run.broadcast.len(),
            run.stdout.trim()
          ),
        ));
      }
      cx.nontrivial(fingerprint(&(case, n, "zero")));
      continue;
    }
    if !run.ok {
      cx.label(&format!("rejected:{kind}"));
      env.mine(1).map_err(harness("mine"))?;
      continue;
    }
    if step.dry_run {
      cx.label("dry-run");
      if !run.broadcast.is_empty() {
        return cx.fail(Fail::new(
          format!("c22|dry-run-broadcast|{kind}"),
          format!("step {n}: `{command}` broadcast a transaction despite --dry-run"),
        ));
      }
      // simulate: broadcast the offered transaction ourselves
      if let Some(tx) = &run.offered {
        env.push_tx(tx.clone());
      } else {
        continue;
      }
    }
    let txs: Vec<Transaction> = if step.dry_run {
      run.offered.iter().cloned().collect()
    } else {
      run.broadcast.clone()
    };
    if txs.len() != 1 {
      return cx.fail(Fail::new(
        format!("c22|tx-count|{kind}"),
        format!("step {n}: `{command}` succeeded with {} transactions broadcast", txs.len()),
      ));
    }
    let tx = &txs[0];
    // rune balances entering the transaction
    let mut input_runes: BTreeMap<Rune, u128> = BTreeMap::new();
    for input in &tx.input {
      if let Some(state) = run.pre.get(&input.previous_output) {
        for (rune, amount) in &state.runes {
          *input_runes.entry(*rune).or_default() += amount;
        }
      }
    }
    env.mine(1).map_err(harness("mine"))?;
    let txid = tx.compute_txid();
    // where ord's rune rules put them
    let mut to_script: BTreeMap<(bitcoin::ScriptBuf, Rune), u128> = BTreeMap::new();
    let mut to_wallet: BTreeMap<Rune, u128> = BTreeMap::new();
    let mut to_other: BTreeMap<Rune, u128> = BTreeMap::new();
    let recipients: BTreeSet<bitcoin::ScriptBuf> = run.requested.iter().map(|(s, _, _)| s.clone()).collect();
    for (vout, output) in tx.output.iter().enumerate() {
      if output.script_pubkey.is_op_return() {
        continue;
      }
      let state = env
        .output_state(&OutPoint {
          txid,
          vout: vout as u32,
        })
        .map_err(harness("output state"))?;
      for (rune, amount) in state.runes {
        if recipients.contains(&output.script_pubkey) {
          *to_script.entry((output.script_pubkey.clone(), rune)).or_default() += amount;
        } else if env.is_wallet_script(&output.script_pubkey) {
          *to_wallet.entry(rune).or_default() += amount;
        } else {
          *to_other.entry(rune).or_default() += amount;
        }
      }
    }
    let mut burned: BTreeMap<Rune, u128> = BTreeMap::new();
    for meta in &inventory.runes {
      let now = env.burned(meta).map_err(harness("burned"))?;
      let delta = now - burned_before[&meta.rune];
      if delta > 0 {
        burned.insert(meta.rune, delta);
      }
    }
    let name = |rune: &Rune| rune.to_string();
    // recipients get exactly what was asked
    let mut wanted: BTreeMap<(bitcoin::ScriptBuf, Rune), u128> = BTreeMap::new();
    for (script, rune, amount) in &run.requested {
      *wanted.entry((script.clone(), *rune)).or_default() += amount;
    }
    if wanted != to_script {
      let show = |m: &BTreeMap<(bitcoin::ScriptBuf, Rune), u128>| {
        m.iter()
          .map(|((s, r), a)| format!("{}…:{}={}", &s.to_hex_string()[..12], name(r), a))
          .collect::<Vec<_>>()
          .join(", ")
      };
      return cx.fail(Fail::new(
        format!("c22|recipient-amount|{kind}"),
        format!(
          "step {n}: `{command}`: recipients were to get [{}] but transaction {txid} gives them [{}]",
          show(&wanted),
          show(&to_script)
        ),
      ));
    }
    // burns: exactly the requested burn
    let mut wanted_burn: BTreeMap<Rune, u128> = BTreeMap::new();
    if let Some((rune, amount)) = run.requested_burn {
      wanted_burn.insert(rune, amount);
    }
    if wanted_burn != burned {
      return cx.fail(Fail::new(
        format!("c22|burned|{kind}"),
        format!(
          "step {n}: `{command}`: expected burns {:?}, transaction {txid} burned {:?}",
          wanted_burn.iter().map(|(r, a)| (name(r), *a)).collect::<Vec<_>>(),
          burned.iter().map(|(r, a)| (name(r), *a)).collect::<Vec<_>>()
        ),
      ));
    }
    if !to_other.is_empty() {
      return cx.fail(Fail::new(
        format!("c22|stray|{kind}"),
        format!(
          "step {n}: `{command}`: transaction {txid} leaves runes {:?} on outputs that are neither a recipient nor the wallet's",
          to_other.iter().map(|(r, a)| (name(r), *a)).collect::<Vec<_>>()
        ),
      ));
    }
    // everything else returns to the wallet
    let mut expected_change = input_runes.clone();
    for ((_, rune), amount) in &wanted {
      let e = expected_change.entry(*rune).or_default();
      *e = e.saturating_sub(*amount);
    }
    for (rune, amount) in &wanted_burn {
      let e = expected_change.entry(*rune).or_default();
      *e = e.saturating_sub(*amount);
    }
    expected_change.retain(|_, a| *a > 0);
    if expected_change != to_wallet {
      return cx.fail(Fail::new(
        format!("c22|change|{kind}"),
        format!(
          "step {n}: `{command}`: inputs carried {:?}; after the requested amounts {:?} should return to the wallet but {:?} did",
          input_runes.iter().map(|(r, a)| (name(r), *a)).collect::<Vec<_>>(),
          expected_change.iter().map(|(r, a)| (name(r), *a)).collect::<Vec<_>>(),
          to_wallet.iter().map(|(r, a)| (name(r), *a)).collect::<Vec<_>>()
        ),
      ));
    }
    cx.label(&format!("moved:{kind}"));
    if input_runes.len() > 1 {
      cx.label("several-runes-in-inputs");
    }
    if tx.input.iter().filter(|i| run.subject.contains(&i.previous_output)).count() > 1 {
      cx.label("several-runic-inputs");
    }
    if !expected_change.is_empty() {
      cx.label("rune-change");
    } else {
      cx.label("exact-coverage");
    }
    cx.nontrivial(fingerprint(&(case, n)));
    cx.sample(6, || {
      json!({
        "command": command,
        "inputs_carried": input_runes.iter().map(|(r, a)| (name(r), a.to_string())).collect::<BTreeMap<_, _>>(),
        "returned_to_wallet": to_wallet.iter().map(|(r, a)| (name(r), a.to_string())).collect::<BTreeMap<_, _>>(),
      })
    });
  }
  Ok(())
}

pub fn c22(s: &mut Session) -> Meta {
  let t = s.tier();
  s.run_part(
    Part::new("rune-commands", t.pick(160, 2400), move || case_strategy(5, 5, 1), c22_check)
      .shrink_iters(60)
      .timeout(600),
  );
  let max_outputs = t.pick(5, 12);
  s.run_part(
    Part::new("split-construction", t.pick(40_000, 600_000), move || split_case(max_outputs), c22_split_check).shrink_iters(2000),
  );
  Meta {
    level: "exploration",
    rule: "Part split-construction: the split transaction constructor (Split::build_transaction through hook H7) on generated inventories (0..6 runic outputs holding 1..3 of up to 4 runes, amounts up to 2^100) and split files (0..5, thorough ..12, recipients over 22 address types, 0..3 rune amounts each: zero, one, fraction, everything left, more than left); the resulting transaction is evaluated with an independent implementation of the runes transfer rules (reference runestone decoder + edict allocation): recipients get exactly the requested amounts, the rest of what the inputs carry goes to the change script, nothing is burned or stranded, inputs are distinct wallet outputs, and a file containing a zero amount is rejected. Part rune-commands: each case builds a wallet on the mock node from generated holdings (up to 3 etched runes with divisibility 0..38 and premines from 1 to u128::MAX/4; 2..9 wallet outputs holding 1..3 runes each, several outputs per rune, some also inscribed) and runs the real `ord wallet send <amount:RUNE>`, `burn <amount:RUNE>` and `split --splits` (1..4 recipients, 0..3 runes each) commands as subprocesses against a live `ord server`; requested amounts are zero, one, a fraction of, exactly, and more than the spendable balance. Oracle after mining the broadcast (or --dry-run) transaction: per the index's rune balances, each recipient script holds exactly the requested amount of each rune and nothing else, burned supply grew by exactly the requested burn and by nothing for any other rune, no rune landed on a third-party output, and every other rune balance the inputs carried is on outputs paying wallet addresses; a command asking for zero units must exit non-zero without broadcasting. Non-trivial = an accepted command whose transaction was mined and audited, or a zero request that was rejected; distinct by (case, step).",
    assumptions: &[
      "rune balances after the transaction are read from ord's own index (its conformance to the runes rules is C08-C11)",
    ],
    required_labels: &[
      "moved:send-rune",
      "moved:burn-rune",
      "moved:split",
      "zero-request:send-rune",
      "zero-request:burn-rune",
      "zero-request:split",
      "several-runes-in-inputs",
      "several-runic-inputs",
      "rune-change",
      "exact-coverage",
      "split-hook:built",
      "split-hook:zero-rejected",
      "split-hook:shortfall",
      "split-hook:several-inputs",
      "split-hook:rune-change",
      "split-hook:exact",
      "split-hook:several-runes",
      "split-hook:several-recipient-amounts",
    ],
  }
}

// ------------------------------------------------- C22: split via hook H7

#[derive(Clone, Debug, Serialize, Deserialize, PartialEq, Eq, Hash)]
pub struct SplitCase {
  /// per wallet output: (rune index, amount)
  pub balances: Vec<Vec<(u8, U128)>>,
  /// recipients: (address index, value, runes: (rune index, amount class))
  pub outputs: Vec<(u8, Option<u64>, Vec<(u8, RuneAmt)>)>,
  pub postage: Option<u64>,
  pub no_limit: bool,
  pub nrunes: u8,
}

fn split_case(max_outputs: usize) -> BoxedStrategy<SplitCase> {
  (
    1u8..=4,
    proptest::collection::vec(
      proptest::collection::vec(
        (
          0u8..4,
          prop_oneof![
            3 => 1u128..20,
            3 => 1u128..1_000_000,
            2 => (1u128 << 64)..(1u128 << 100),
            1 => ((1u128 << 127) - 5)..((1u128 << 127) + 5),
            1 => (u128::MAX - 5)..=u128::MAX,
          ]
          .prop_map(U128),
        ),
        1..=3,
      ),
      0..=6,
    ),
    proptest::collection::vec(
      (
        0u8..22,
        proptest::option::weighted(0.5, prop_oneof![1u64..700, 330u64..100_000]),
        proptest::collection::vec((0u8..4, rune_amt(1)), 0..=3),
      ),
      0..=max_outputs,
    ),
    proptest::option::weighted(0.4, prop_oneof![1u64..700, 330u64..50_000]),
    any::<bool>(),
  )
    .prop_map(|(nrunes, balances, outputs, postage, no_limit)| SplitCase {
      balances,
      outputs,
      postage,
      no_limit,
      nrunes,
    })
    .boxed()
}

/// The runes transfer rules for a transaction without etching or mint,
/// independent of ord: returns per-output balances and what was burned.
pub fn ref_transfer(
  mut unallocated: BTreeMap<(u64, u32), u128>,
  tx: &Transaction,
) -> (Vec<BTreeMap<(u64, u32), u128>>, BTreeMap<(u64, u32), u128>) {
  use crate::props::runestone::{RefArtifact, ref_decipher};
  let n = tx.output.len();
  let mut allocated: Vec<BTreeMap<(u64, u32), u128>> = vec![BTreeMap::new(); n];
  let mut burned: BTreeMap<(u64, u32), u128> = BTreeMap::new();
  let scripts: Vec<Vec<u8>> = tx.output.iter().map(|o| o.script_pubkey.to_bytes()).collect();
  let is_op_return = |i: usize| scripts[i].first() == Some(&0x6a);
  let artifact = ref_decipher(&scripts);
  let mut pointer = None;
  match artifact {
    Some(RefArtifact::Cenotaph { .. }) => {
      for (id, amount) in unallocated {
        *burned.entry(id).or_default() += amount;
      }
      return (allocated, burned);
    }
    Some(RefArtifact::Runestone { edicts, pointer: p, .. }) => {
      pointer = p;
      for (block, txi, amount, output) in edicts {
        let id = (block, txi);
        let Some(balance) = unallocated.get_mut(&id) else {
          continue;
        };
        let output = output as usize;
        let mut allocate = |balance: &mut u128, amount: u128, output: usize, allocated: &mut Vec<BTreeMap<(u64, u32), u128>>| {
          if amount > 0 {
            *balance -= amount;
            *allocated[output].entry(id).or_default() += amount;
          }
        };
        if output == n {
          let destinations: Vec<usize> = (0..n).filter(|i| !is_op_return(*i)).collect();
          if !destinations.is_empty() {
            if amount == 0 {
              let share = *balance / destinations.len() as u128;
              let remainder = (*balance % destinations.len() as u128) as usize;
              for (i, output) in destinations.iter().enumerate() {
                let amount = if i < remainder { share + 1 } else { share };
                allocate(balance, amount, *output, &mut allocated);
              }
            } else {
              for output in destinations {
                let amount = amount.min(*balance);
                allocate(balance, amount, output, &mut allocated);
              }
            }
          }
        } else if output < n {
          let amount = if amount == 0 { *balance } else { amount.min(*balance) };
          allocate(balance, amount, output, &mut allocated);
        }
      }
    }
    None => {}
  }
  let default_output = pointer
    .map(|p| p as usize)
    .or_else(|| (0..n).find(|i| !is_op_return(*i)));
  for (id, amount) in unallocated {
    if amount == 0 {
      continue;
    }
    match default_output {
      Some(output) if output < n => *allocated[output].entry(id).or_default() += amount,
      _ => *burned.entry(id).or_default() += amount,
    }
  }
  for i in 0..n {
    if is_op_return(i) {
      for (id, amount) in std::mem::take(&mut allocated[i]) {
        *burned.entry(id).or_default() += amount;
      }
    }
  }
  (allocated, burned)
}

fn c22_split_check(case: &SplitCase, cx: &Cx) -> CheckResult {
  use {
    crate::props::builder::address_pool,
    bitcoin::{Txid, hashes::Hash},
    ordinals::{RuneId, SpacedRune},
  };
  let pool = address_pool();
  let nrunes = usize::from(case.nrunes);
  let runes: Vec<(Rune, RuneId)> = (0..nrunes)
    .map(|k| {
      (
        Rune(crate::walletenv::rune_base() + k as u128 * 13),
        RuneId {
          block: 10 + k as u64 * 3,
          tx: 1 + k as u32,
        },
      )
    })
    .collect();
  let mut balances: BTreeMap<OutPoint, BTreeMap<Rune, u128>> = BTreeMap::new();
  let mut supply_left: BTreeMap<Rune, u128> = BTreeMap::new();
  for (i, output) in case.balances.iter().enumerate() {
    let outpoint = OutPoint {
      txid: Txid::from_byte_array([i as u8 + 1; 32]),
      vout: i as u32 % 3,
    };
    let entry = balances.entry(outpoint).or_default();
    for (rune, amount) in output {
      let (rune, _) = runes[usize::from(*rune) % nrunes];
      // a rune's supply is at most u128::MAX over all outputs
      let left = supply_left.entry(rune).or_insert(u128::MAX);
      let amount = amount.0.min(*left);
      if amount == 0 {
        continue;
      }
      *left -= amount;
      *entry.entry(rune).or_insert(0) += amount;
    }
    if entry.is_empty() {
      balances.remove(&outpoint);
    }
  }
  let total = |rune: Rune| -> u128 { balances.values().map(|m| m.get(&rune).copied().unwrap_or(0)).sum() };
  let mut remaining: BTreeMap<Rune, u128> = runes.iter().map(|(r, _)| (*r, total(*r))).collect();
  let change_address = pool[22 % pool.len()].clone();
  let mut outputs = Vec::new();
  let mut zero = false;
  let mut over = false;
  let mut asked: BTreeMap<Rune, u128> = BTreeMap::new();
  let mut wanted: BTreeMap<(bitcoin::ScriptBuf, Rune), u128> = BTreeMap::new();
  for (address, value, wants) in &case.outputs {
    let mut address = pool[usize::from(*address) % pool.len()].clone();
    if address == change_address {
      address = pool[0].clone();
    }
    let mut map = BTreeMap::new();
    for (rune, amount) in wants {
      let (rune, _) = runes[usize::from(*rune) % nrunes];
      if map.contains_key(&rune) {
        continue;
      }
      let available = remaining[&rune];
      // the amounts asked of one rune never add up beyond u128::MAX (the
      // constructor adds them with checked_add(..).unwrap())
      let asked_so_far = asked.get(&rune).copied().unwrap_or(0);
      let amount = resolve(amount, available).min(u128::MAX - asked_so_far);
      asked.insert(rune, asked_so_far + amount);
      if amount == 0 {
        zero = true;
      }
      if amount > available {
        over = true;
      }
      remaining.insert(rune, available.saturating_sub(amount));
      map.insert(rune, amount);
      *wanted.entry((address.script_pubkey(), rune)).or_default() += amount;
    }
    outputs.push((address, value.map(Amount::from_sat), map));
  }
  let rune_info: BTreeMap<Rune, (u8, RuneId, SpacedRune, Option<char>)> = runes
    .iter()
    .map(|(rune, id)| (*rune, (2u8, *id, SpacedRune { rune: *rune, spacers: 0 }, Some('$'))))
    .collect();
  let id_of: BTreeMap<(u64, u32), Rune> = runes.iter().map(|(r, id)| ((id.block, id.tx), *r)).collect();
  let result = ord::verif::split_build_transaction(
    case.no_limit,
    balances.clone(),
    &change_address,
    case.postage.map(Amount::from_sat),
    outputs.clone(),
    rune_info,
  );
  let tx = match result {
    Err(message) => {
      cx.label("split-hook:rejected");
      if zero {
        cx.label("split-hook:zero-rejected");
        cx.nontrivial(fingerprint(&(case, "zero")));
      }
      if message.contains("need") {
        cx.label("split-hook:shortfall");
      }
      return Ok(());
    }
    Ok(tx) => tx,
  };
  if zero {
    return cx.fail(Fail::new(
      "c22|split-hook|zero-accepted",
      format!("split file with a zero rune amount was accepted: {outputs:?}"),
    ));
  }
  // inputs: distinct known outputs
  let mut carried: BTreeMap<(u64, u32), u128> = BTreeMap::new();
  let mut seen = BTreeSet::new();
  for input in &tx.input {
    let Some(held) = balances.get(&input.previous_output) else {
      return cx.fail(Fail::new(
        "c22|split-hook|unknown-input",
        format!("split transaction spends {} which is not a runic wallet output", input.previous_output),
      ));
    };
    if !seen.insert(input.previous_output) {
      return cx.fail(Fail::new(
        "c22|split-hook|duplicate-input",
        format!("split transaction spends {} twice", input.previous_output),
      ));
    }
    for (rune, amount) in held {
      let id = runes.iter().find(|(r, _)| r == rune).unwrap().1;
      *carried.entry((id.block, id.tx)).or_default() += amount;
    }
  }
  let (allocated, burned) = ref_transfer(carried.clone(), &tx);
  let mut got: BTreeMap<(bitcoin::ScriptBuf, Rune), u128> = BTreeMap::new();
  let mut to_change: BTreeMap<Rune, u128> = BTreeMap::new();
  let recipient_scripts: BTreeSet<bitcoin::ScriptBuf> = outputs.iter().map(|(a, _, _)| a.script_pubkey()).collect();
  for (i, output) in tx.output.iter().enumerate() {
    for (id, amount) in &allocated[i] {
      let rune = id_of[id];
      if recipient_scripts.contains(&output.script_pubkey) {
        *got.entry((output.script_pubkey.clone(), rune)).or_default() += amount;
      } else if output.script_pubkey == change_address.script_pubkey() {
        *to_change.entry(rune).or_default() += amount;
      } else {
        return cx.fail(Fail::new(
          "c22|split-hook|stray",
          format!("split transaction leaves {amount} of {rune} on output {i} which is neither a recipient nor change"),
        ));
      }
    }
  }
  wanted.retain(|_, a| *a > 0);
  if !burned.is_empty() {
    return cx.fail(Fail::new(
      "c22|split-hook|burned",
      format!("split transaction burns {burned:?}; requested {outputs:?} from {balances:?}"),
    ));
  }
  if wanted != got {
    return cx.fail(Fail::new(
      "c22|split-hook|recipient-amount",
      format!(
        "split recipients were to get {:?} but get {:?}; tx outputs {:?}",
        wanted.iter().map(|((s, r), a)| (s.to_hex_string(), r.to_string(), *a)).collect::<Vec<_>>(),
        got.iter().map(|((s, r), a)| (s.to_hex_string(), r.to_string(), *a)).collect::<Vec<_>>(),
        tx.output
      ),
    ));
  }
  let mut expected_change: BTreeMap<Rune, u128> = BTreeMap::new();
  for (id, amount) in &carried {
    *expected_change.entry(id_of[id]).or_default() += amount;
  }
  for ((_, rune), amount) in &wanted {
    let e = expected_change.entry(*rune).or_default();
    *e -= amount;
  }
  expected_change.retain(|_, a| *a > 0);
  if expected_change != to_change {
    return cx.fail(Fail::new(
      "c22|split-hook|change",
      format!("split change should be {expected_change:?} but is {to_change:?}"),
    ));
  }
  let _ = over;
  cx.label("split-hook:built");
  if tx.input.len() > 1 {
    cx.label("split-hook:several-inputs");
  }
  if !expected_change.is_empty() {
    cx.label("split-hook:rune-change");
  } else if !wanted.is_empty() {
    cx.label("split-hook:exact");
  }
  if carried.len() > 1 {
    cx.label("split-hook:several-runes");
  }
  if wanted.len() > 1 {
    cx.label("split-hook:several-recipient-amounts");
    cx.nontrivial(fingerprint(case));
  }
  cx.sample(4, || {
    json!({
      "inputs": tx.input.len(),
      "outputs": tx.output.len(),
      "recipient_amounts": wanted.len(),
      "change_runes": expected_change.len(),
    })
  });
  Ok(())
}

// --------------------------------------------------------------------- C24

#[derive(Clone, Copy, Debug, Serialize, Deserialize, PartialEq, Eq, Hash)]
pub enum SellerKind {
  Single,
  Multi,
  Runic,
  Both,
  Cardinal,
}

#[derive(Clone, Copy, Debug, Serialize, Deserialize, PartialEq, Eq, Hash)]
pub enum SigKind {
  Unsigned,
  /// the witness the mock node's signer produces
  Witness,
  OtherWitness,
  ScriptSig,
  Both,
}

#[derive(Clone, Copy, Debug, Serialize, Deserialize, PartialEq, Eq, Hash)]
pub enum PayKind {
  Exact,
  Less(u16),
  More(u16),
  Nothing,
}

#[derive(Clone, Copy, Debug, Serialize, Deserialize, PartialEq, Eq, Hash)]
pub enum NamedKind {
  Sellers,
  LastOfSellers,
  OtherInWallet,
  Foreign,
}

#[derive(Clone, Debug, Serialize, Deserialize, PartialEq, Eq, Hash)]
pub struct Trial {
  pub sellers: Vec<SellerKind>,
  pub seller_sig: SigKind,
  pub seller_position: u8,
  pub buyer_sigs: Vec<SigKind>,
  pub price: u64,
  pub pay: PayKind,
  pub named: NamedKind,
  pub amount_delta: i8,
  /// name the magnitude of the balance change even when the wallet loses it
  pub magnitude_amount: bool,
  pub extra_wallet_output: Option<u64>,
  pub dry_run: bool,
}

#[derive(Clone, Debug, Serialize, Deserialize, PartialEq, Eq, Hash)]
pub struct OfferCase {
  pub inventory: InventorySpec,
  pub trials: Vec<Trial>,
  pub salt: u64,
}

fn offer_inventory() -> impl Strategy<Value = InventorySpec> {
  let amounts = || prop_oneof![1u128..50, 1u128..100_000].prop_map(U128);
  (
    proptest::collection::vec(10_000u64..200_000, 2..=4),
    proptest::collection::vec((10_000u64..200_000, 2u8..=3, any::<bool>()), 1..=2),
    proptest::collection::vec((10_000u64..200_000, amounts()), 1..=2),
    proptest::collection::vec((10_000u64..200_000, amounts()), 1..=2),
    proptest::collection::vec(10_000u64..2_000_000, 1..=3),
  )
    .prop_map(|(singles, multis, runics, boths, cardinals)| {
      let mut outputs = Vec::new();
      for value in singles {
        outputs.push(WalletOutSpec {
          value,
          inscriptions: 1,
          spread: false,
          runes: Vec::new(),
        });
      }
      for (value, inscriptions, spread) in multis {
        outputs.push(WalletOutSpec {
          value,
          inscriptions,
          spread,
          runes: Vec::new(),
        });
      }
      for (value, amount) in runics {
        outputs.push(WalletOutSpec {
          value,
          inscriptions: 0,
          spread: false,
          runes: vec![(0, amount)],
        });
      }
      for (value, amount) in boths {
        outputs.push(WalletOutSpec {
          value,
          inscriptions: 1,
          spread: false,
          runes: vec![(0, amount)],
        });
      }
      for value in cardinals {
        outputs.push(WalletOutSpec {
          value,
          inscriptions: 0,
          spread: false,
          runes: Vec::new(),
        });
      }
      InventorySpec {
        runes: vec![RuneSpec {
          divisibility: 0,
          premine: U128(10_000_000),
          mint: None,
          spacers: 0,
        }],
        outputs,
        foreign_inscriptions: vec![20_000],
      }
    })
}

fn seller_kind() -> impl Strategy<Value = SellerKind> {
  prop_oneof![
    16 => Just(SellerKind::Single),
    2 => Just(SellerKind::Multi),
    2 => Just(SellerKind::Runic),
    2 => Just(SellerKind::Both),
    2 => Just(SellerKind::Cardinal),
  ]
}

fn trial() -> impl Strategy<Value = Trial> {
  let buyer_sig = prop_oneof![
    12 => Just(SigKind::Witness),
    2 => Just(SigKind::Unsigned),
    1 => Just(SigKind::OtherWitness),
    1 => Just(SigKind::ScriptSig),
    1 => Just(SigKind::Both),
  ];
  (
    prop_oneof![
      10 => seller_kind().prop_map(|k| vec![k]),
      1 => Just(Vec::new()),
      2 => proptest::collection::vec(seller_kind(), 2..=3),
    ],
    prop_oneof![12 => Just(SigKind::Unsigned), 1 => Just(SigKind::Witness), 1 => Just(SigKind::ScriptSig)],
    0u8..4,
    prop_oneof![1 => proptest::collection::vec(buyer_sig.clone(), 0..=0), 12 => proptest::collection::vec(buyer_sig, 1..=3)],
    prop_oneof![1000u64..1_000_000, Just(0u64), Just(1u64)],
    prop_oneof![
      12 => Just(PayKind::Exact),
      1 => (1u16..1000).prop_map(PayKind::Less),
      1 => (1u16..1000).prop_map(PayKind::More),
      1 => Just(PayKind::Nothing),
    ],
    prop_oneof![
      12 => Just(NamedKind::Sellers),
      1 => Just(NamedKind::LastOfSellers),
      1 => Just(NamedKind::OtherInWallet),
      1 => Just(NamedKind::Foreign),
    ],
    (prop_oneof![12 => Just(0i8), 1 => Just(1i8), 1 => Just(-1i8), 1 => any::<i8>()], proptest::bool::weighted(0.15)),
    proptest::option::weighted(0.08, 330u64..100_000),
    proptest::bool::weighted(0.2),
  )
    .prop_map(
      |(sellers, seller_sig, seller_position, buyer_sigs, price, pay, named, (amount_delta, magnitude_amount), extra_wallet_output, dry_run)| Trial {
        sellers,
        seller_sig,
        seller_position,
        buyer_sigs,
        price,
        pay,
        named,
        amount_delta,
        magnitude_amount,
        extra_wallet_output,
        dry_run,
      },
    )
}

fn offer_case(max_trials: usize) -> BoxedStrategy<OfferCase> {
  (offer_inventory(), proptest::collection::vec(trial(), 1..=max_trials), any::<u64>())
    .prop_map(|(inventory, trials, salt)| OfferCase { inventory, trials, salt })
    .boxed()
}

fn apply_sig(input: &mut bitcoin::psbt::Input, kind: SigKind) {
  let witness = |b: u8| bitcoin::Witness::from_slice(&[&[b; 64]]);
  let script = || bitcoin::script::Builder::new().push_slice([7u8; 71]).into_script();
  match kind {
    SigKind::Unsigned => {}
    SigKind::Witness => input.final_script_witness = Some(witness(0)),
    SigKind::OtherWitness => input.final_script_witness = Some(witness(1)),
    SigKind::ScriptSig => input.final_script_sig = Some(script()),
    SigKind::Both => {
      input.final_script_witness = Some(witness(0));
      input.final_script_sig = Some(script());
    }
  }
}

fn c24_check(case: &OfferCase, cx: &Cx) -> CheckResult {
  use bitcoin::{ScriptBuf, Sequence, TxIn, TxOut, Witness, absolute::LockTime, transaction::Version};
  let mut env = WalletEnv::new(&index_config()).map_err(harness("env"))?;
  let inventory = env.build_inventory(&case.inventory, case.salt).map_err(harness("inventory"))?;
  for (n, trial) in case.trials.iter().enumerate() {
    env.clear_locks();
    let pre = env.snapshot().map_err(harness("snapshot"))?;
    let wallet_utxos = env.wallet_utxos();
    let pick = |kind: SellerKind, skip: &BTreeSet<OutPoint>| -> Option<OutPoint> {
      pre
        .iter()
        .filter(|(o, _)| !skip.contains(o))
        .find(|(_, s)| match kind {
          SellerKind::Single => s.inscriptions.len() == 1 && s.runes.is_empty(),
          SellerKind::Multi => s.inscriptions.len() > 1 && s.runes.is_empty(),
          SellerKind::Runic => s.inscriptions.is_empty() && !s.runes.is_empty(),
          SellerKind::Both => !s.inscriptions.is_empty() && !s.runes.is_empty(),
          SellerKind::Cardinal => s.cardinal(),
        })
        .map(|(o, _)| *o)
    };
    let mut used = BTreeSet::new();
    let mut seller_inputs = Vec::new();
    for kind in &trial.sellers {
      if let Some(outpoint) = pick(*kind, &used) {
        used.insert(outpoint);
        seller_inputs.push(outpoint);
      }
    }
    // inputs: buyers (harness outputs) with the wallet's spliced in
    let mut inputs: Vec<(OutPoint, SigKind, bool)> = Vec::new();
    for sig in &trial.buyer_sigs {
      let Ok(fund) = env.take_fund(1) else {
        break;
      };
      inputs.push((fund.outpoint, *sig, false));
    }
    for (k, outpoint) in seller_inputs.iter().enumerate() {
      let position = (usize::from(trial.seller_position) + k).min(inputs.len());
      inputs.insert(position, (*outpoint, trial.seller_sig, true));
    }
    if inputs.is_empty() {
      continue;
    }
    let postage: u64 = seller_inputs.first().map(|o| pre[o].value).unwrap_or(10_000);
    let seller_address = env.wallet_address();
    let mut outputs = vec![TxOut {
      value: Amount::from_sat(postage),
      script_pubkey: foreign_address(30).script_pubkey(),
    }];
    let paid = match trial.pay {
      PayKind::Exact => Some(postage + trial.price),
      PayKind::Less(d) => Some((postage + trial.price).saturating_sub(u64::from(d)).max(330)),
      PayKind::More(d) => Some(postage + trial.price + u64::from(d)),
      PayKind::Nothing => None,
    };
    if let Some(paid) = paid {
      outputs.push(TxOut {
        value: Amount::from_sat(paid),
        script_pubkey: seller_address.script_pubkey(),
      });
    }
    if let Some(value) = trial.extra_wallet_output {
      outputs.push(TxOut {
        value: Amount::from_sat(value),
        script_pubkey: env.wallet_address().script_pubkey(),
      });
    }
    // the offered transaction must not create value: the buyer's change
    // takes what is left, and an underfunded shape is not presented
    let total_in: u64 = inputs
      .iter()
      .filter_map(|(outpoint, _, _)| env.tx_out(outpoint))
      .map(|o| o.value.to_sat())
      .sum();
    let total_out: u64 = outputs.iter().map(|o| o.value.to_sat()).sum();
    if total_in < total_out {
      cx.label("skipped:underfunded-shape");
      continue;
    }
    if total_in - total_out >= 1_000 {
      outputs.push(TxOut {
        value: Amount::from_sat(total_in - total_out - 500),
        script_pubkey: foreign_address(31).script_pubkey(),
      });
    }
    let tx = Transaction {
      version: Version(2),
      lock_time: LockTime::ZERO,
      input: inputs
        .iter()
        .map(|(outpoint, _, _)| TxIn {
          previous_output: *outpoint,
          script_sig: ScriptBuf::new(),
          sequence: Sequence::ENABLE_RBF_NO_LOCKTIME,
          witness: Witness::new(),
        })
        .collect(),
      output: outputs,
    };
    let mut psbt = Psbt::from_unsigned_tx(tx.clone()).map_err(harness("psbt"))?;
    for (i, (_, sig, _)) in inputs.iter().enumerate() {
      apply_sig(&mut psbt.inputs[i], *sig);
    }
    // what is named on the command line
    let sellers_inscriptions: Vec<ord::InscriptionId> = seller_inputs
      .first()
      .map(|o| pre[o].inscriptions.clone())
      .unwrap_or_default();
    let named = match trial.named {
      NamedKind::Sellers => sellers_inscriptions.first().copied(),
      NamedKind::LastOfSellers => sellers_inscriptions.last().copied(),
      NamedKind::OtherInWallet => pre
        .iter()
        .filter(|(o, _)| !seller_inputs.contains(o))
        .flat_map(|(_, s)| s.inscriptions.iter().copied())
        .next(),
      NamedKind::Foreign => inventory.foreign_inscriptions.first().map(|f| f.0),
    }
    .or_else(|| inventory.foreign_inscriptions.first().map(|f| f.0));
    let Some(named) = named else {
      continue;
    };
    // the balance change, computed here
    let wallet_in: u64 = tx
      .input
      .iter()
      .filter_map(|i| wallet_utxos.get(&i.previous_output))
      .map(|o| o.value.to_sat())
      .sum();
    let wallet_out: u64 = tx
      .output
      .iter()
      .filter(|o| env.is_wallet_script(&o.script_pubkey))
      .map(|o| o.value.to_sat())
      .sum();
    let change = i128::from(wallet_out) - i128::from(wallet_in);
    let amount_arg = if trial.magnitude_amount {
      change.unsigned_abs() as u64
    } else {
      (change.max(0) + i128::from(trial.amount_delta)).max(0) as u64
    };
    if change < 0 && i128::from(amount_arg) == -change {
      cx.label("amount-names-a-loss");
    }

    // ---- the advertised-trade predicate, clause by clause
    let wallet_inputs: Vec<usize> = tx
      .input
      .iter()
      .enumerate()
      .filter(|(_, i)| wallet_utxos.contains_key(&i.previous_output))
      .map(|(i, _)| i)
      .collect();
    let mut failing: Vec<&'static str> = Vec::new();
    if wallet_inputs.len() != 1 {
      failing.push("wallet-inputs");
    }
    if let Some(&index) = wallet_inputs.first() {
      let state = &pre[&tx.input[index].previous_output];
      if state.inscriptions.len() != 1 {
        failing.push("inscription-count");
      } else if state.inscriptions[0] != named {
        failing.push("named-inscription");
      }
      if !state.runes.is_empty() {
        failing.push("runes");
      }
    }
    if change != i128::from(amount_arg) {
      failing.push("amount");
    }
    let mut ambiguous = false;
    for (i, (_, sig, is_wallet)) in inputs.iter().enumerate() {
      if wallet_inputs.first() == Some(&i) || (*is_wallet && wallet_inputs.len() > 1) {
        continue;
      }
      match sig {
        SigKind::Unsigned => failing.push("unsigned-other-input"),
        SigKind::Both => ambiguous = true,
        _ => {}
      }
    }
    failing.dedup();

    use base64::Engine;
    let encoded = base64::engine::general_purpose::STANDARD.encode(psbt.serialize());
    let mut args = vec![
      "offer".to_string(),
      "accept".to_string(),
      "--amount".to_string(),
      format!("{amount_arg}sat"),
      "--inscription".to_string(),
      named.to_string(),
      "--psbt".to_string(),
      encoded,
    ];
    if trial.dry_run {
      args.push("--dry-run".into());
    }
    let before: BTreeSet<_> = env.mempool().iter().map(|t| t.compute_txid()).collect();
    let arg_refs: Vec<&str> = args.iter().map(String::as_str).collect();
    let output = env.wallet(&arg_refs, &[]).map_err(harness("ord wallet offer accept"))?;
    let broadcast: Vec<Transaction> = env
      .mempool()
      .into_iter()
      .filter(|t| !before.contains(&t.compute_txid()))
      .collect();
    let accepted = output.ok() || !broadcast.is_empty();
    let describe = || {
      format!(
        "trial {n}: inputs {:?}, outputs {:?}, --amount {amount_arg}sat --inscription {named}{}; wallet input states {:?}",
        inputs
          .iter()
          .map(|(o, s, w)| format!("{}{}:{:?}", if *w { "wallet " } else { "" }, o, s))
          .collect::<Vec<_>>(),
        tx.output
          .iter()
          .map(|o| format!("{}{}", if env.is_wallet_script(&o.script_pubkey) { "wallet " } else { "" }, o.value.to_sat()))
          .collect::<Vec<_>>(),
        if trial.dry_run { " --dry-run" } else { "" },
        wallet_inputs.iter().map(|i| &pre[&tx.input[*i].previous_output]).collect::<Vec<_>>()
      )
    };
    if accepted {
      cx.label("accepted");
      if !failing.is_empty() && !ambiguous {
        return cx.fail(Fail::new(
          format!("c24|accepted|{}", failing[0]),
          format!("offer accepted although clause(s) {failing:?} fail; {}", describe()),
        ));
      }
      if trial.dry_run && !broadcast.is_empty() {
        return cx.fail(Fail::new(
          "c24|dry-run-broadcast",
          format!("offer accept --dry-run broadcast a transaction; {}", describe()),
        ));
      }
      // signatures of the other inputs are those of the PSBT
      for sent in &broadcast {
        if sent.compute_txid() != tx.compute_txid() {
          return cx.fail(Fail::new(
            "c24|other-transaction",
            format!("offer accept broadcast {} instead of the offered {}; {}", sent.compute_txid(), tx.compute_txid(), describe()),
          ));
        }
        for (i, (_, sig, _)) in inputs.iter().enumerate() {
          if wallet_inputs.first() == Some(&i) {
            continue;
          }
          let mut expected = bitcoin::psbt::Input::default();
          apply_sig(&mut expected, *sig);
          let witness_same = sent.input[i].witness == expected.final_script_witness.clone().unwrap_or_default();
          let script_same = sent.input[i].script_sig == expected.final_script_sig.clone().unwrap_or_default();
          if !(witness_same && script_same) {
            return cx.fail(Fail::new(
              "c24|signature-changed",
              format!("input {i} was broadcast with a different signature than the PSBT carried; {}", describe()),
            ));
          }
        }
      }
      if failing.is_empty() {
        cx.label("accepted-valid");
        cx.nontrivial(fingerprint(&(case, n)));
        cx.sample(3, || json!({"accepted": describe()}));
      }
    } else {
      cx.label("rejected");
      if failing.is_empty() && !ambiguous {
        let all_mock_sigs = inputs.iter().all(|(_, s, w)| *w || *s == SigKind::Witness);
        if all_mock_sigs && trial.seller_sig == SigKind::Unsigned {
          cx.label("rejected-although-valid");
        } else {
          cx.label("rejected:signature-handling");
        }
      }
      if failing.len() == 1 {
        cx.label(&format!("rejected-only:{}", failing[0]));
        cx.nontrivial(fingerprint(&(case, n)));
        cx.sample(8, || json!({"rejected_for": failing[0], "stderr": output.stderr.lines().last().unwrap_or("")}));
      }
    }
    env.mine(1).map_err(harness("mine"))?;
  }
  Ok(())
}

pub fn c24(s: &mut Session) -> Meta {
  let t = s.tier();
  s.run_part(
    Part::new("offer-psbts", t.pick(120, 2000), move || offer_case(8), c24_check)
      .shrink_iters(80)
      .timeout(600),
  );
  Meta {
    level: "exploration",
    rule: "Each case builds a wallet on the mock node (outputs with exactly one inscription, with 2..3 inscriptions, with runes, with an inscription and runes, and cardinal ones) and presents 1..8 generated PSBTs to the real `ord wallet offer accept` (subprocess, live server). A PSBT starts from a well-formed offer (buyer inputs signed, one wallet input holding exactly the named inscription, the wallet paid postage + price, --amount = price) and is perturbed: zero, two or three wallet inputs; a wallet input with several inscriptions, runes, both, or none; another inscription named (a later one on the same output, one elsewhere in the wallet, a foreign one); payment short, over or missing, an extra output to the wallet, --amount off by one or more or naming the magnitude of a loss; buyer inputs unsigned, signed by script_sig, by a different witness, or both; the wallet's input already signed; any input order; --dry-run. Oracle: if the command exits 0 or a transaction reaches the mock mempool then every clause of the property holds by the harness' own computation from the PSBT, the mock node's UTXO set and the index's /output JSON (exactly one wallet input; it holds exactly the named inscription and no runes; wallet outputs minus wallet inputs equals --amount; every other input carries a final signature), the broadcast transaction is the offered one and its other inputs carry exactly the PSBT's signatures; --dry-run broadcasts nothing. Non-trivial = an accepted well-formed offer, or a rejected PSBT violating exactly one clause; distinct by (case, trial).",
    assumptions: &[
      "the mock node signs by writing a fixed 64-byte witness and its finalizepsbt discards existing signatures; buyer signatures equal to that witness survive, any other is (correctly) refused by ord after signing",
      "inputs carrying both a final script_sig and a final witness are refused by ord as malformed and are not judged",
    ],
    required_labels: &[
      "accepted-valid",
      "rejected-only:wallet-inputs",
      "rejected-only:inscription-count",
      "rejected-only:named-inscription",
      "rejected-only:runes",
      "rejected-only:amount",
      "rejected-only:unsigned-other-input",
      "amount-names-a-loss",
    ],
  }
}

// --------------------------------------------------------------------- C21

#[derive(Clone, Debug, Serialize, Deserialize, PartialEq, Eq, Hash)]
pub struct EntrySpec {
  pub body_len: u16,
  pub ext: u8,
  pub metadata: bool,
  pub metaprotocol: bool,
  pub delegate: bool,
  pub file_with_delegate: bool,
  pub destination: Option<u8>,
}

#[derive(Clone, Debug, Serialize, Deserialize, PartialEq, Eq, Hash)]
pub struct EtchSpec {
  pub divisibility: u8,
  pub premine: U128,
  pub terms: Option<(U128, U128, u8)>,
  pub turbo: bool,
  pub spacers: u32,
}

#[derive(Clone, Debug, Serialize, Deserialize, PartialEq, Eq, Hash)]
pub struct BatchCase {
  /// 0 separate-outputs, 1 shared-output, 2 same-sat, 3 satpoints
  pub mode: u8,
  pub entries: Vec<EntrySpec>,
  pub parents: u8,
  pub postage: Option<u64>,
  /// same-sat only: 0 nothing, 1 explicit cardinal satpoint, 2 reinscribe an inscribed sat
  pub same_sat_target: u8,
  pub etching: Option<EtchSpec>,
  pub fee_rate: u8,
  pub commit_fee_rate: Option<u8>,
  pub compress: bool,
  pub dry_run: bool,
  pub cardinals: Vec<u64>,
  pub salt: u64,
}

fn batch_case() -> BoxedStrategy<BatchCase> {
  let entry = (
    0u16..600,
    0u8..4,
    proptest::bool::weighted(0.3),
    proptest::bool::weighted(0.2),
    proptest::bool::weighted(0.2),
    any::<bool>(),
    proptest::option::weighted(0.4, 40u8..44),
  )
    .prop_map(|(body_len, ext, metadata, metaprotocol, delegate, file_with_delegate, destination)| EntrySpec {
      body_len,
      ext,
      metadata,
      metaprotocol,
      delegate,
      file_with_delegate,
      destination,
    });
  let etch = (
    prop_oneof![Just(0u8), 1u8..=8, Just(38u8)],
    prop_oneof![Just(0u128), 1u128..1000, 1000u128..1_000_000_000, Just(u64::MAX as u128)].prop_map(U128),
    proptest::option::weighted(0.5, (prop_oneof![1u128..100, 1u128..1_000_000].prop_map(U128), (1u128..1000).prop_map(U128), 0u8..4)),
    any::<bool>(),
    prop_oneof![Just(0u32), 0u32..4096],
  )
    .prop_map(|(divisibility, premine, terms, turbo, spacers)| EtchSpec {
      divisibility,
      premine,
      terms,
      turbo,
      spacers,
    });
  (
    (
      0u8..4,
      proptest::collection::vec(entry, 1..=5),
      prop_oneof![3 => Just(0u8), 2 => Just(1u8), 1 => Just(2u8)],
      proptest::option::weighted(0.4, prop_oneof![330u64..1000, 1000u64..30_000]),
      0u8..3,
      proptest::option::weighted(0.3, etch),
    ),
    (
      prop_oneof![Just(0u8), Just(1u8), 2u8..5],
      proptest::option::weighted(0.2, 0u8..5),
      proptest::bool::weighted(0.2),
      proptest::bool::weighted(0.08),
      proptest::collection::vec(prop_oneof![20_000u64..200_000, 200_000u64..5_000_000], 6..=9),
      any::<u64>(),
    ),
  )
    .prop_map(
      |((mode, entries, parents, postage, same_sat_target, etching), (fee_rate, commit_fee_rate, compress, dry_run, cardinals, salt))| BatchCase {
        mode,
        entries,
        parents,
        postage,
        same_sat_target,
        etching,
        fee_rate,
        commit_fee_rate,
        compress,
        dry_run,
        cardinals,
        salt,
      },
    )
    .boxed()
}

/// Runs `ord wallet batch`, mining the blocks a rune commitment needs.
fn run_batch(env: &mut WalletEnv, args: &[&str], files: &[(&str, Vec<u8>)]) -> Result<(crate::walletenv::CliOutput, Vec<Transaction>), Fail> {
  use std::{
    io::Read,
    sync::{Arc, Mutex},
    time::{Duration, Instant},
  };
  let mut child = env.spawn_wallet(args, files).map_err(harness("spawn"))?;
  let mut stdout = child.stdout.take().unwrap();
  let mut stderr = child.stderr.take().unwrap();
  let err_buffer = Arc::new(Mutex::new(Vec::<u8>::new()));
  let out_thread = std::thread::spawn(move || {
    let mut s = Vec::new();
    let _ = stdout.read_to_end(&mut s);
    s
  });
  let err_thread = {
    let err_buffer = err_buffer.clone();
    std::thread::spawn(move || {
      let mut chunk = [0u8; 4096];
      loop {
        match stderr.read(&mut chunk) {
          Ok(0) | Err(_) => break,
          Ok(n) => err_buffer.lock().unwrap().extend_from_slice(&chunk[..n]),
        }
      }
    })
  };
  let started = Instant::now();
  let mut matured = false;
  let mut seen: Vec<Transaction> = Vec::new();
  // the command may broadcast its reveal while the harness is still mining
  // the maturation blocks: what those blocks swallowed counts as seen too
  let mined_mark = env.mined.len();
  let status = loop {
    for tx in env.mempool() {
      if !seen.iter().any(|t| t.compute_txid() == tx.compute_txid()) {
        seen.push(tx);
      }
    }
    if let Some(status) = child.try_wait().map_err(harness("wait"))? {
      break status;
    }
    if !matured && String::from_utf8_lossy(&err_buffer.lock().unwrap()).contains("Waiting for rune") {
      matured = true;
      for tx in env.mempool() {
        if !seen.iter().any(|t| t.compute_txid() == tx.compute_txid()) {
          seen.push(tx);
        }
      }
      env.mine(6).map_err(harness("mine"))?;
    }
    if started.elapsed() > Duration::from_secs(120) {
      let _ = child.kill();
      let _ = child.wait();
      return Err(Fail::new("HARNESS-FAULT", "ord wallet batch did not finish within 120 s"));
    }
    std::thread::sleep(Duration::from_millis(2));
  };
  for tx in env.mempool() {
    if !seen.iter().any(|t| t.compute_txid() == tx.compute_txid()) {
      seen.push(tx);
    }
  }
  for tx in env.mined[mined_mark..].to_vec() {
    if !seen.iter().any(|t| t.compute_txid() == tx.compute_txid()) {
      seen.push(tx);
    }
  }
  let stdout = String::from_utf8_lossy(&out_thread.join().unwrap()).to_string();
  let _ = err_thread.join();
  let stderr = String::from_utf8_lossy(&err_buffer.lock().unwrap()).to_string();
  Ok((
    crate::walletenv::CliOutput {
      code: status.code(),
      stdout,
      stderr,
    },
    seen,
  ))
}

fn c21_check(case: &BatchCase, cx: &Cx) -> CheckResult {
  use ord::wallet::batch;
  let mut env = WalletEnv::new(&index_config()).map_err(harness("env"))?;
  // the wallet: cardinals first (they sort anywhere by txid anyway), three
  // single inscriptions usable as parents or reinscription targets, a
  // doubly inscribed output, and runic ones
  let mut outputs: Vec<WalletOutSpec> = case
    .cardinals
    .iter()
    .map(|value| WalletOutSpec {
      value: *value,
      inscriptions: 0,
      spread: false,
      runes: Vec::new(),
    })
    .collect();
  for value in [12_000u64, 33_000, 10_000] {
    outputs.push(WalletOutSpec {
      value,
      inscriptions: 1,
      spread: false,
      runes: Vec::new(),
    });
  }
  outputs.push(WalletOutSpec {
    value: 9_000_000,
    inscriptions: 2,
    spread: true,
    runes: Vec::new(),
  });
  for value in [8_000_000u64, 7_000_000] {
    outputs.push(WalletOutSpec {
      value,
      inscriptions: 0,
      spread: false,
      runes: vec![(0, U128(1000))],
    });
  }
  let spec = InventorySpec {
    runes: vec![RuneSpec {
      divisibility: 0,
      premine: U128(1_000_000),
      mint: None,
      spacers: 0,
    }],
    outputs,
    foreign_inscriptions: vec![20_000],
  };
  let inventory = env.build_inventory(&spec, case.salt).map_err(harness("inventory"))?;
  let pre = env.snapshot().map_err(harness("snapshot"))?;
  let singles: Vec<(OutPoint, ord::InscriptionId)> = pre
    .iter()
    .filter(|(_, s)| s.inscriptions.len() == 1 && s.runes.is_empty())
    .map(|(o, s)| (*o, s.inscriptions[0]))
    .collect();
  let cardinals: Vec<(OutPoint, u64)> = pre.iter().filter(|(_, s)| s.cardinal()).map(|(o, s)| (*o, s.value)).collect();
  let mode = case.mode % 4;
  let mode_name = ["separate-outputs", "shared-output", "same-sat", "satpoints"][usize::from(mode)];

  // ---- the batch file
  let parents: Vec<(OutPoint, ord::InscriptionId)> = singles.iter().take(usize::from(case.parents)).copied().collect();
  let mut yaml = format!("mode: {mode_name}\n");
  if !parents.is_empty() {
    yaml.push_str("parents:\n");
    for (_, id) in &parents {
      yaml.push_str(&format!("- {id}\n"));
    }
  }
  if mode != 3 {
    if let Some(postage) = case.postage {
      yaml.push_str(&format!("postage: {postage}\n"));
    }
  }
  let mut subject_outputs: BTreeSet<OutPoint> = parents.iter().map(|(o, _)| *o).collect();
  let mut reinscribing = false;
  if mode == 2 {
    match case.same_sat_target {
      1 => {
        if let Some((outpoint, value)) = cardinals.last() {
          yaml.push_str(&format!("satpoint: {}:{}\n", outpoint, (case.salt % 7).min(value.saturating_sub(1))));
        }
      }
      2 => {
        // reinscribe the last single that is not a parent
        if let Some((outpoint, _)) = singles.iter().rev().find(|(o, _)| !subject_outputs.contains(o)) {
          yaml.push_str(&format!("satpoint: {outpoint}:0\nreinscribe: true\n"));
          subject_outputs.insert(*outpoint);
          reinscribing = true;
        }
      }
      _ => {}
    }
  }
  let mut files: Vec<(String, Vec<u8>)> = Vec::new();
  let delegate_target = inventory.foreign_inscriptions.first().map(|f| f.0);
  let mut wanted_delegates: Vec<Option<ord::InscriptionId>> = Vec::new();
  let mut wanted_bodies: Vec<Option<Vec<u8>>> = Vec::new();
  let mut wanted_destinations: Vec<Option<bitcoin::ScriptBuf>> = Vec::new();
  let mut satpoint_outputs: Vec<OutPoint> = Vec::new();
  yaml.push_str("inscriptions:\n");
  for (i, entry) in case.entries.iter().enumerate() {
    let delegate = if entry.delegate { delegate_target } else { None };
    let with_file = delegate.is_none() || entry.file_with_delegate;
    let mut lines: Vec<String> = Vec::new();
    if with_file {
      let ext = ["txt", "json", "png", "html"][usize::from(entry.ext % 4)];
      let name = format!("f{i}.{ext}");
      let body: Vec<u8> = (0..entry.body_len).map(|k| b'a' + ((k as usize + i) % 26) as u8).collect();
      lines.push(format!("file: {name}"));
      files.push((name, body.clone()));
      wanted_bodies.push(Some(body));
    } else {
      wanted_bodies.push(None);
    }
    if let Some(delegate) = delegate {
      lines.push(format!("delegate: {delegate}"));
    }
    wanted_delegates.push(delegate);
    if entry.metadata {
      lines.push(format!("metadata:\n    title: entry {i}\n    n: {i}"));
    }
    if entry.metaprotocol {
      lines.push(format!("metaprotocol: proto{i}"));
    }
    if mode == 0 || mode == 3 {
      if let Some(k) = entry.destination {
        let address = foreign_address(k);
        lines.push(format!("destination: {address}"));
        wanted_destinations.push(Some(address.script_pubkey()));
      } else {
        wanted_destinations.push(None);
      }
    } else {
      wanted_destinations.push(None);
    }
    if mode == 3 {
      // distinct cardinal outputs, taken from the end so that the planner's
      // own choice of a commit input (the first cardinal) stays free
      let Some((outpoint, _)) = cardinals.iter().rev().nth(i) else {
        return Ok(());
      };
      if cardinals.len() < case.entries.len() + 2 {
        return Ok(());
      }
      lines.push(format!("satpoint: {outpoint}:0"));
      satpoint_outputs.push(*outpoint);
    }
    yaml.push_str(&format!("- {}\n", lines.join("\n  ")));
  }
  let mut etching_request = None;
  if let Some(etch) = &case.etching {
    let rune = Rune(crate::walletenv::rune_base() + u128::from(case.salt % 1_000_000) * 1000 + 777);
    let spaced = ordinals::SpacedRune {
      rune,
      spacers: etch.spacers & ((1u32 << (rune.to_string().len() - 1)) - 1),
    };
    let premine = etch.premine.0;
    let (mintable, terms_yaml, terms) = match &etch.terms {
      Some((amount, cap, kind)) => {
        let mut t = format!(
          "  terms:\n    amount: '{}'\n    cap: {}\n",
          decimal_string(amount.0, etch.divisibility),
          cap.0
        );
        match kind % 4 {
          1 => t.push_str("    offset:\n      start: 0\n      end: 1000\n"),
          2 => t.push_str("    height:\n      start: 500\n      end: 10000\n"),
          3 => t.push_str("    offset:\n      end: 100\n    height:\n      end: 5000\n"),
          _ => {}
        }
        (amount.0.saturating_mul(cap.0), t, Some((amount.0, cap.0)))
      }
      None => (0, String::new(), None),
    };
    let supply = premine.saturating_add(mintable);
    yaml.push_str(&format!(
      "etching:\n  rune: {}\n  symbol: '$'\n  divisibility: {}\n  supply: '{}'\n  premine: '{}'\n  turbo: {}\n{}",
      spaced,
      etch.divisibility,
      decimal_string(supply, etch.divisibility),
      decimal_string(premine, etch.divisibility),
      etch.turbo,
      terms_yaml
    ));
    etching_request = Some((spaced, premine, etch.divisibility, terms, etch.turbo));
  }

  // ---- run it
  let fee_rate = case.fee_rate.to_string();
  let mut args: Vec<String> = vec!["batch".into(), "--fee-rate".into(), fee_rate, "--batch".into(), "batch.yaml".into()];
  if let Some(rate) = case.commit_fee_rate {
    args.push("--commit-fee-rate".into());
    args.push(rate.to_string());
  }
  if case.compress {
    args.push("--compress".into());
  }
  if case.dry_run {
    args.push("--dry-run".into());
  }
  let mut file_refs: Vec<(&str, Vec<u8>)> = files.iter().map(|(n, b)| (n.as_str(), b.clone())).collect();
  file_refs.push(("batch.yaml", yaml.clone().into_bytes()));
  let arg_refs: Vec<&str> = args.iter().map(String::as_str).collect();
  cx.label(&format!("mode:{mode_name}"));
  let (output, seen) = run_batch(&mut env, &arg_refs, &file_refs)?;
  if !output.ok() {
    cx.label("rejected");
    cx.label(&format!("rejected:{mode_name}"));
    if std::env::var_os("ORDVERIF_DEBUG").is_some() {
      eprintln!("[debug] batch rejected: {}\n{yaml}", output.stderr.lines().last().unwrap_or(""));
    }
    if output.stderr.contains("panicked at") {
      cx.label("cli-panicked");
    }
    return Ok(());
  }
  let report: batch::Output = output.json().map_err(harness("batch output"))?;
  let context = || format!("batch file:\n{yaml}\nord reported: {}", output.stdout.trim());
  if case.dry_run {
    cx.label("dry-run");
    if !seen.is_empty() {
      return cx.fail(Fail::new("c21|dry-run-broadcast", format!("--dry-run broadcast {} transaction(s); {}", seen.len(), context())));
    }
    return Ok(());
  }
  let commit_tx = seen.iter().find(|tx| tx.compute_txid() == report.commit).cloned();
  let reveal_tx = seen.iter().find(|tx| tx.compute_txid() == report.reveal).cloned();
  let (Some(commit_tx), Some(reveal_tx)) = (commit_tx, reveal_tx) else {
    return cx.fail(Fail::new(
      "c21|reported-tx-not-broadcast",
      format!("commit {} / reveal {} reported but not seen in the mempool; {}", report.commit, report.reveal, context()),
    ));
  };
  env.mine(1).map_err(harness("mine"))?;

  // (c) the commit spends nothing inscribed or runic except the batch's own subject
  for input in &commit_tx.input {
    if let Some(state) = pre.get(&input.previous_output) {
      if !state.cardinal() && !(reinscribing && subject_outputs.contains(&input.previous_output) && !parents.iter().any(|(o, _)| o == &input.previous_output)) {
        return cx.fail(Fail::new(
          format!("c21|commit-spends-noncardinal|{mode_name}"),
          format!("commit {} spends {} holding {:?}; {}", report.commit, input.previous_output, state, context()),
        ));
      }
    }
  }

  // (a) ids and locations
  if report.inscriptions.len() != case.entries.len() {
    return cx.fail(Fail::new(
      "c21|count",
      format!("{} inscriptions requested, {} reported; {}", case.entries.len(), report.inscriptions.len(), context()),
    ));
  }
  for (i, info) in report.inscriptions.iter().enumerate() {
    let path = format!("/inscription/{}", info.id);
    let response = env.server.get(&path, None, true).map_err(harness("get inscription"))?;
    if response.status != 200 {
      return cx.fail(Fail::new(
        format!("c21|reported-id-missing|{mode_name}"),
        format!("reported inscription {} is not in the index after mining (status {}); {}", info.id, response.status, context()),
      ));
    }
    let indexed: ord::api::Inscription = serde_json::from_slice(&response.body).map_err(harness("inscription json"))?;
    if indexed.satpoint != info.location {
      return cx.fail(Fail::new(
        format!("c21|location|{mode_name}"),
        format!("inscription {i} ({}) reported at {} but indexed at {}; {}", info.id, info.location, indexed.satpoint, context()),
      ));
    }
    let reported_destination = info.destination.clone().assume_checked();
    let located_script = env.tx_out(&indexed.satpoint.outpoint).map(|o| o.script_pubkey);
    if located_script.as_ref() != Some(&reported_destination.script_pubkey()) {
      return cx.fail(Fail::new(
        format!("c21|destination|{mode_name}"),
        format!("inscription {i} reported for {} but sits on script {:?}; {}", reported_destination, located_script, context()),
      ));
    }
    match &wanted_destinations[i] {
      Some(script) => {
        if script != &reported_destination.script_pubkey() {
          return cx.fail(Fail::new(
            format!("c21|requested-destination|{mode_name}"),
            format!("inscription {i} was to go to {script:?} but went to {reported_destination}; {}", context()),
          ));
        }
      }
      None => {
        if !env.is_wallet_script(&reported_destination.script_pubkey()) {
          return cx.fail(Fail::new(
            format!("c21|default-destination|{mode_name}"),
            format!("inscription {i} without destination went to non-wallet address {reported_destination}; {}", context()),
          ));
        }
      }
    }
    let mut indexed_parents = indexed.parents.clone();
    indexed_parents.sort();
    let mut wanted_parents: Vec<ord::InscriptionId> = parents.iter().map(|(_, id)| *id).collect();
    wanted_parents.sort();
    if indexed_parents != wanted_parents {
      return cx.fail(Fail::new(
        format!("c21|parents|{mode_name}"),
        format!("inscription {i} has parents {indexed_parents:?}, batch named {wanted_parents:?}; {}", context()),
      ));
    }
    let recursive: ord::api::InscriptionRecursive = env
      .server
      .json(&format!("/r/inscription/{}", info.id))
      .map_err(harness("recursive json"))?;
    if recursive.delegate != wanted_delegates[i] {
      return cx.fail(Fail::new(
        format!("c21|delegate|{mode_name}"),
        format!("inscription {i} has delegate {:?}, batch named {:?}; {}", recursive.delegate, wanted_delegates[i], context()),
      ));
    }
    if wanted_delegates[i].is_none() && !case.compress {
      if let Some(body) = &wanted_bodies[i] {
        let content = env
          .server
          .get(&format!("/content/{}", info.id), None, false)
          .map_err(harness("content"))?;
        if !(body.is_empty() && content.status == 404) && &content.body != body {
          return cx.fail(Fail::new(
            format!("c21|content|{mode_name}"),
            format!("inscription {i} content differs from its file ({} vs {} bytes, status {}); {}", content.body.len(), body.len(), content.status, context()),
          ));
        }
      }
    }
    if mode == 3 {
      // the inscription is on the first sat of the output it asked for
      let wanted_input = satpoint_outputs[i];
      if !reveal_tx.input.iter().any(|input| input.previous_output == wanted_input) {
        return cx.fail(Fail::new(
          "c21|satpoint-not-spent",
          format!("entry {i} asked for satpoint {wanted_input}:0 but the reveal does not spend it; {}", context()),
        ));
      }
    }
  }
  // nothing beyond what was reported
  let extra = env
    .server
    .get(&format!("/inscription/{}i{}", report.reveal, report.inscriptions.len()), None, true)
    .map_err(harness("get extra"))?;
  if extra.status == 200 {
    return cx.fail(Fail::new(
      "c21|unreported-inscription",
      format!("the reveal created more inscriptions than reported; {}", context()),
    ));
  }

  // (b) parents are back in the wallet
  let reported_parents: BTreeSet<_> = report.parents.iter().copied().collect();
  if reported_parents != parents.iter().map(|(_, id)| *id).collect::<BTreeSet<_>>() {
    return cx.fail(Fail::new("c21|reported-parents", format!("reported parents {:?} differ from the batch's; {}", report.parents, context())));
  }
  for (_, id) in &parents {
    let indexed: ord::api::Inscription = env.server.json(&format!("/inscription/{id}")).map_err(harness("parent json"))?;
    let script = env.tx_out(&indexed.satpoint.outpoint).map(|o| o.script_pubkey);
    let in_wallet = script.as_ref().map(|s| env.is_wallet_script(s)).unwrap_or(false);
    if !in_wallet || indexed.satpoint.outpoint.txid != report.reveal {
      return cx.fail(Fail::new(
        format!("c21|parent-not-returned|{mode_name}"),
        format!("parent {id} is at {} (script {:?}) after the batch, not on a wallet output of the reveal; {}", indexed.satpoint, script, context()),
      ));
    }
  }

  // (d) the etching
  if let Some((spaced, premine, divisibility, terms, turbo)) = etching_request {
    let response = env.server.get(&format!("/rune/{}", spaced.rune), None, true).map_err(harness("get rune"))?;
    if response.status != 200 {
      return cx.fail(Fail::new(
        "c21|rune-not-etched",
        format!("the batch's rune {spaced} does not exist after the reveal was mined (status {}); {}", response.status, context()),
      ));
    }
    let rune: ord::api::Rune = serde_json::from_slice(&response.body).map_err(harness("rune json"))?;
    let entry = &rune.entry;
    let indexed_terms = entry.terms.map(|t| (t.amount.unwrap_or(0), t.cap.unwrap_or(0)));
    if entry.spaced_rune != spaced
      || entry.premine != premine
      || entry.divisibility != divisibility
      || entry.etching != report.reveal
      || entry.turbo != turbo
      || indexed_terms != terms
      || entry.symbol != Some('$')
    {
      return cx.fail(Fail::new(
        "c21|rune-entry",
        format!("rune entry {entry:?} differs from the batch's etching ({spaced}, premine {premine}, divisibility {divisibility}, terms {terms:?}, turbo {turbo}); {}", context()),
      ));
    }
    let Some(info) = &report.rune else {
      return cx.fail(Fail::new("c21|rune-not-reported", format!("etching not reported; {}", context())));
    };
    if info.rune != spaced {
      return cx.fail(Fail::new("c21|rune-name", format!("reported rune {} differs from {spaced}; {}", info.rune, context())));
    }
    if premine > 0 {
      let (Some(location), Some(destination)) = (info.location, info.destination.clone()) else {
        return cx.fail(Fail::new("c21|premine-location-missing", format!("premine without reported location; {}", context())));
      };
      let state = env.output_state(&location).map_err(harness("premine output"))?;
      if state.runes.get(&spaced.rune).copied() != Some(premine) || state.runes.len() != 1 {
        return cx.fail(Fail::new(
          "c21|premine-location",
          format!("premine {premine} reported at {location} but that output holds {:?}; {}", state.runes, context()),
        ));
      }
      let script = env.tx_out(&location).map(|o| o.script_pubkey);
      let destination = destination.assume_checked();
      if script.as_ref() != Some(&destination.script_pubkey()) || !env.is_wallet_script(&destination.script_pubkey()) {
        return cx.fail(Fail::new(
          "c21|premine-destination",
          format!("premine destination {destination} is not the wallet-owned script of {location}; {}", context()),
        ));
      }
      cx.label("etching-with-premine");
    } else {
      if info.location.is_some() {
        return cx.fail(Fail::new("c21|premine-location-spurious", format!("no premine but a location was reported; {}", context())));
      }
      cx.label("etching-without-premine");
    }
    // the first inscription carries the rune
    let first: ord::api::Inscription = env
      .server
      .json(&format!("/inscription/{}", report.inscriptions[0].id))
      .map_err(harness("first json"))?;
    if first.rune != Some(spaced) {
      return cx.fail(Fail::new(
        "c21|rune-parent-inscription",
        format!("first inscription's rune is {:?}, expected {spaced}; {}", first.rune, context()),
      ));
    }
  }

  cx.label("audited");
  cx.label(&format!("audited:{mode_name}"));
  if !parents.is_empty() {
    cx.label("with-parents");
  }
  if reinscribing {
    cx.label("reinscribe");
  }
  if mode == 2 && case.same_sat_target == 1 {
    cx.label("same-sat-explicit-satpoint");
  }
  if wanted_delegates.iter().any(|d| d.is_some()) {
    cx.label("with-delegate");
  }
  if case.postage.is_some() && mode != 3 {
    cx.label("with-postage");
  }
  if case.entries.len() > 1 {
    cx.label("several-inscriptions");
  }
  if wanted_destinations.iter().any(|d| d.is_some()) {
    cx.label("with-destinations");
  }
  if case.entries.len() > 1 || !parents.is_empty() || case.etching.is_some() {
    cx.nontrivial(fingerprint(case));
  }
  cx.sample(6, || {
    json!({
      "mode": mode_name,
      "inscriptions": report.inscriptions.iter().map(|i| format!("{} at {}", i.id, i.location)).collect::<Vec<_>>(),
      "parents": report.parents.len(),
      "rune": report.rune.as_ref().map(|r| r.rune.to_string()),
    })
  });
  Ok(())
}

pub fn c21(s: &mut Session) -> Meta {
  let t = s.tier();
  s.run_part(Part::new("batches", t.pick(200, 3000), batch_case, c21_check).shrink_iters(60).timeout(600));
  Meta {
    level: "exploration",
    rule: "Each case builds a wallet on the mock node (6..9 cardinal outputs, three singly inscribed outputs usable as parents or reinscription targets, a doubly inscribed output, two runic outputs, a foreign inscription as delegate target) and runs the real `ord wallet batch --batch batch.yaml` (subprocess, live server; for etchings the harness mines the six maturation blocks while the command waits) on a generated batch file: mode separate-outputs / shared-output / same-sat / satpoints; 1..5 inscriptions with files of 0..599 bytes and four media types, optional metadata, metaprotocol, delegate (with or without a file), per-inscription destinations, per-inscription satpoints; 0..2 parents; optional postage; same-sat with an explicit satpoint or reinscribing an inscribed sat; optional etching (divisibility 0..38, premine 0..u64::MAX, optional terms with offset/height ranges, turbo, spacers); fee rates 0..4, optional commit fee rate, --compress, some --dry-run. Oracle after mining commit and reveal: every reported inscription id exists in the index at exactly the reported satpoint, on an output paying the reported destination (the requested one, or a wallet address), with exactly the batch's parents and delegate and the file's content; the reveal created no further inscription; every parent sits on a wallet-owned output of the reveal; the commit transaction (mock mempool) spends no inscribed or runic wallet output other than the sat being reinscribed; an etching exists under the requested name with the requested premine, divisibility, terms, turbo and symbol, its premine is the only balance of the reported wallet-owned output, and the first inscription is the rune's parent. Non-trivial = an audited batch with more than one inscription, parents or an etching; distinct by case.",
    assumptions: &[
      "`sat:` targets need a sat index and are not generated (the wallet test bed runs without --index-sats)",
      "metadata and gallery contents are not compared",
    ],
    required_labels: &[
      "audited:separate-outputs",
      "audited:shared-output",
      "audited:same-sat",
      "audited:satpoints",
      "with-parents",
      "reinscribe",
      "with-delegate",
      "with-postage",
      "with-destinations",
      "etching-with-premine",
      "etching-without-premine",
      "several-inscriptions",
    ],
  }
}
