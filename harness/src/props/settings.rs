//! C36: settings follow flag > environment > config file > default.

use {
  crate::{
    node::scratch_dir,
    runner::{CheckResult, Cx, Fail, Meta, Part, Session, fingerprint},
  },
  clap::Parser,
  ord::{Options, settings::Settings},
  proptest::prelude::*,
  serde::{Deserialize, Serialize},
  serde_json::{Value, json},
  std::collections::BTreeMap,
};

#[derive(Clone, Debug, Serialize, Deserialize, Default)]
pub struct Sources {
  pub flag: bool,
  pub env: bool,
  pub file: bool,
}

#[derive(Clone, Debug, Serialize, Deserialize)]
pub enum ConfigLocation {
  ConfigFlag,
  ConfigEnv,
  ConfigDirFlag,
  ConfigDirEnv,
  DataDirFlag,
  DataDirEnv,
  /// --config names the real file, ORD_CONFIG a decoy with other values
  ConfigFlagOverEnv,
  /// --config-dir names the real directory, ORD_CONFIG_DIR a decoy directory
  ConfigDirFlagOverEnv,
  /// ORD_CONFIG names the real file while --config-dir / --datadir hold decoys
  ConfigEnvOverDirs,
}

#[derive(Clone, Debug, Serialize, Deserialize)]
pub struct SettingsCase {
  /// per value key: which sources set it
  pub values: BTreeMap<String, Sources>,
  pub bools: BTreeMap<String, Sources>,
  /// chain per source: index into CHAINS, and whether the flag uses the
  /// short form (--regtest) instead of --chain
  pub chain: (Option<(u8, bool)>, Option<u8>, Option<u8>),
  pub hidden_env: Vec<u8>,
  pub hidden_file: Vec<u8>,
  pub location: ConfigLocation,
  pub salt: u16,
}

const CHAINS: [&str; 5] = ["mainnet", "regtest", "signet", "testnet", "testnet4"];
const CHAIN_DIRS: [&str; 5] = ["", "regtest", "signet", "testnet3", "testnet4"];

/// (key, kind, has flag)
const VALUE_KEYS: &[(&str, char, bool)] = &[
  ("bitcoin_data_dir", 'p', true),
  ("bitcoin_rpc_limit", 'n', true),
  ("bitcoin_rpc_url", 's', true),
  ("commit_interval", 'n', true),
  ("cookie_file", 'p', true),
  ("data_dir", 'p', true),
  ("height_limit", 'n', true),
  ("http_port", 'h', false),
  ("index", 'p', true),
  ("index_cache_size", 'n', true),
  ("max_savepoints", 'n', true),
  ("savepoint_interval", 'n', true),
  ("server_url", 's', false),
  // credentials are pairs: generated so that both or neither end up set
  ("bitcoin_rpc_username", 's', true),
  ("bitcoin_rpc_password", 's', true),
  ("server_username", 's', true),
  ("server_password", 's', true),
];

const BOOL_KEYS: &[&str] = &[
  "index_addresses",
  "index_runes",
  "index_sats",
  "index_transactions",
  "integration_test",
  "no_index_inscriptions",
];

/// A config file that must never be read: every key has a value that no
/// real source uses.
const DECOY: &str = "bitcoin_rpc_limit: 99991\ncommit_interval: 99992\nheight_limit: 99993\nhttp_port: 9994\nindex_cache_size: 99995\nmax_savepoints: 99996\nsavepoint_interval: 99997\nchain: testnet\nserver_url: decoy-server-url\nbitcoin_rpc_url: decoy-rpc-url\nindex_sats: true\nindex_runes: true\nindex_addresses: true\nindex_transactions: true\nintegration_test: true\nno_index_inscriptions: true\nhidden:\n- 0909090909090909090909090909090909090909090909090909090909090909i9\n";

fn value_for(key: &str, kind: char, source: usize, salt: u16) -> String {
  let n = u32::from(salt) % 50 + 100 * (source as u32 + 1) + 7;
  match kind {
    'n' => n.to_string(),
    'h' => (1000 + n).to_string(),
    'p' => format!("/nonexistent/{}/{key}-{n}", ["flag", "env", "file"][source]),
    _ => format!("{}-{key}-{n}", ["flag", "env", "file"][source]),
  }
}

fn hidden_id(k: u8) -> String {
  format!("{}i{}", hex::encode([k; 32]), k % 3)
}

fn settings_check(case: &SettingsCase, cx: &Cx) -> CheckResult {
  let dir = scratch_dir();
  let config_path = match case.location {
    ConfigLocation::ConfigFlag
    | ConfigLocation::ConfigEnv
    | ConfigLocation::ConfigFlagOverEnv
    | ConfigLocation::ConfigEnvOverDirs => dir.path().join("custom.yaml"),
    _ => dir.path().join("ord.yaml"),
  };

  let mut args: Vec<String> = vec!["ord".into()];
  let mut env: BTreeMap<String, String> = BTreeMap::new();
  let mut file: BTreeMap<String, Value> = BTreeMap::new();
  let mut expected: BTreeMap<String, Value> = BTreeMap::new();
  let mut conflicts = 0u32;

  // where the config file is found
  let mut data_dir_forced: Option<(usize, String)> = None;
  let dir_string = dir.path().display().to_string();
  match case.location {
    ConfigLocation::ConfigFlag => {
      args.push("--config".into());
      args.push(config_path.display().to_string());
    }
    ConfigLocation::ConfigEnv => {
      env.insert("CONFIG".into(), config_path.display().to_string());
    }
    ConfigLocation::ConfigDirFlag => {
      args.push("--config-dir".into());
      args.push(dir_string.clone());
    }
    ConfigLocation::ConfigDirEnv => {
      env.insert("CONFIG_DIR".into(), dir_string.clone());
    }
    ConfigLocation::DataDirFlag => data_dir_forced = Some((0, dir_string.clone())),
    ConfigLocation::DataDirEnv => data_dir_forced = Some((1, dir_string.clone())),
    ConfigLocation::ConfigFlagOverEnv => {
      args.push("--config".into());
      args.push(config_path.display().to_string());
      let decoy = dir.path().join("decoy.yaml");
      std::fs::write(&decoy, DECOY).unwrap();
      env.insert("CONFIG".into(), decoy.display().to_string());
    }
    ConfigLocation::ConfigDirFlagOverEnv => {
      args.push("--config-dir".into());
      args.push(dir_string.clone());
      let decoy_dir = dir.path().join("decoy");
      std::fs::create_dir_all(&decoy_dir).unwrap();
      std::fs::write(decoy_dir.join("ord.yaml"), DECOY).unwrap();
      env.insert("CONFIG_DIR".into(), decoy_dir.display().to_string());
    }
    ConfigLocation::ConfigEnvOverDirs => {
      env.insert("CONFIG".into(), config_path.display().to_string());
      let decoy_dir = dir.path().join("decoy");
      std::fs::create_dir_all(&decoy_dir).unwrap();
      std::fs::write(decoy_dir.join("ord.yaml"), DECOY).unwrap();
      args.push("--config-dir".into());
      args.push(decoy_dir.display().to_string());
    }
  }

  for (key, kind, has_flag) in VALUE_KEYS {
    let sources = case.values.get(*key).cloned().unwrap_or_default();
    let mut set: [Option<String>; 3] = [None, None, None];
    if sources.flag && *has_flag {
      set[0] = Some(value_for(key, *kind, 0, case.salt));
    }
    if sources.env {
      set[1] = Some(value_for(key, *kind, 1, case.salt));
    }
    if sources.file {
      set[2] = Some(value_for(key, *kind, 2, case.salt));
    }
    if *key == "data_dir"
      && let Some((source, value)) = &data_dir_forced
    {
      // the config file is looked up through the data dir: a lower-priority
      // source may still set data_dir, a higher one would move the lookup
      set[*source] = Some(value.clone());
      for s in set.iter_mut().take(*source) {
        *s = None;
      }
    }
    if let Some(v) = &set[0] {
      let flag = if *key == "data_dir" && case.salt % 2 == 0 {
        "--datadir".to_string()
      } else {
        format!("--{}", key.replace('_', "-"))
      };
      args.push(flag);
      args.push(v.clone());
    }
    if let Some(v) = &set[1] {
      env.insert(key.to_uppercase(), v.clone());
    }
    if let Some(v) = &set[2] {
      file.insert(
        key.to_string(),
        if matches!(kind, 'n' | 'h') {
          json!(v.parse::<u64>().unwrap())
        } else {
          json!(v)
        },
      );
    }
    let count = set.iter().filter(|s| s.is_some()).count();
    if count >= 2 {
      conflicts += 1;
    }
    let winner = set.iter().flatten().next().cloned();
    if let Some(winner) = winner {
      let value = if matches!(kind, 'n' | 'h') {
        json!(winner.parse::<u64>().unwrap())
      } else {
        json!(winner)
      };
      expected.insert(key.to_string(), value);
    } else {
      match *key {
        "commit_interval" => {
          expected.insert(key.to_string(), json!(5000));
        }
        "savepoint_interval" => {
          expected.insert(key.to_string(), json!(10));
        }
        "max_savepoints" => {
          expected.insert(key.to_string(), json!(2));
        }
        "bitcoin_rpc_limit" => {
          expected.insert(key.to_string(), json!(12));
        }
        "height_limit" | "http_port" | "server_url" | "bitcoin_rpc_username"
        | "bitcoin_rpc_password" | "server_username" | "server_password" => {
          expected.insert(key.to_string(), Value::Null);
        }
        _ => {} // derived defaults (paths, cache size, rpc url): not asserted
      }
    }
  }

  // chain
  let chain_sources = [
    case.chain.0.map(|(c, _)| c),
    case.chain.1,
    case.chain.2,
  ];
  if let Some((c, short)) = case.chain.0 {
    let name = CHAINS[usize::from(c) % 5];
    if short && name != "mainnet" {
      args.push(format!("--{name}"));
    } else {
      args.push("--chain".into());
      args.push(name.into());
    }
  }
  if let Some(c) = case.chain.1 {
    env.insert("CHAIN".into(), CHAINS[usize::from(c) % 5].into());
  }
  if let Some(c) = case.chain.2 {
    file.insert("chain".into(), json!(CHAINS[usize::from(c) % 5]));
  }
  if chain_sources.iter().flatten().count() >= 2 {
    conflicts += 1;
  }
  let chain_index = usize::from(chain_sources.iter().flatten().next().copied().unwrap_or(0)) % 5;
  expected.insert("chain".into(), json!(CHAINS[chain_index]));

  // data dir is joined with the chain's directory
  if let Some(Value::String(data_dir)) = expected.get("data_dir").cloned() {
    let joined = if CHAIN_DIRS[chain_index].is_empty() {
      data_dir
    } else {
      format!("{data_dir}/{}", CHAIN_DIRS[chain_index])
    };
    expected.insert("data_dir".into(), json!(joined));
  }

  // booleans: on if any source sets them
  for key in BOOL_KEYS {
    let sources = case.bools.get(*key).cloned().unwrap_or_default();
    if sources.flag {
      args.push(format!("--{}", key.replace('_', "-")));
    }
    if sources.env {
      env.insert(key.to_uppercase(), "1".into());
    }
    if sources.file {
      file.insert(key.to_string(), json!(true));
    }
    let on = sources.flag || sources.env || sources.file;
    expected.insert(key.to_string(), json!(on));
    if [sources.flag, sources.env, sources.file].iter().filter(|b| **b).count() >= 2 {
      conflicts += 1;
    }
  }

  // hidden: union
  let mut hidden: Vec<String> = Vec::new();
  if !case.hidden_env.is_empty() {
    env.insert(
      "HIDDEN".into(),
      case
        .hidden_env
        .iter()
        .map(|k| hidden_id(*k))
        .collect::<Vec<_>>()
        .join(" "),
    );
    hidden.extend(case.hidden_env.iter().map(|k| hidden_id(*k)));
  }
  if !case.hidden_file.is_empty() {
    file.insert(
      "hidden".into(),
      json!(case.hidden_file.iter().map(|k| hidden_id(*k)).collect::<Vec<_>>()),
    );
    hidden.extend(case.hidden_file.iter().map(|k| hidden_id(*k)));
  }
  hidden.sort();
  hidden.dedup();

  let write_file = !file.is_empty()
    || matches!(
      case.location,
      ConfigLocation::ConfigFlag | ConfigLocation::ConfigEnv | ConfigLocation::ConfigFlagOverEnv | ConfigLocation::ConfigEnvOverDirs
    );
  if write_file {
    std::fs::write(&config_path, serde_yaml::to_string(&file).unwrap()).unwrap();
  }

  let options = match Options::try_parse_from(&args) {
    Ok(options) => options,
    Err(err) => {
      return cx.fail(Fail::new(
        "settings|options-rejected",
        format!("arguments {args:?} rejected: {err}"),
      ));
    }
  };
  let settings = match Settings::merge(options, env.clone()) {
    Ok(settings) => settings,
    Err(err) => {
      return cx.fail(Fail::new(
        "settings|merge-error",
        format!("merge failed for args {args:?} env {env:?} file {file:?}: {err:#}"),
      ));
    }
  };
  let actual = serde_json::to_value(&settings).unwrap();

  for (key, value) in &expected {
    let got = actual.get(key).cloned().unwrap_or(Value::Null);
    if &got != value {
      let kind = if BOOL_KEYS.contains(&key.as_str()) { "bool" } else { "value" };
      return cx.fail(Fail::new(
        format!("settings|precedence|{kind}"),
        format!(
          "setting `{key}` = {got} but flag > env > file > default gives {value}\n args = {args:?}\n env  = {env:?}\n file = {}",
          serde_json::to_string(&file).unwrap()
        ),
      ));
    }
  }
  let mut got_hidden: Vec<String> = actual
    .get("hidden")
    .and_then(|h| h.as_array())
    .map(|a| a.iter().filter_map(|v| v.as_str().map(String::from)).collect())
    .unwrap_or_default();
  got_hidden.sort();
  if got_hidden != hidden {
    return cx.fail(Fail::new(
      "settings|hidden-union",
      format!("hidden = {got_hidden:?} but the union of env and file is {hidden:?}"),
    ));
  }
  for id in &hidden {
    if !settings.is_hidden(id.parse().unwrap()) {
      return cx.fail(Fail::new("settings|hidden-union", format!("{id} is not hidden")));
    }
  }

  cx.label(&format!("location-{:?}", case.location));
  if conflicts > 0 {
    cx.label("conflicting-sources");
    cx.nontrivial(fingerprint(&format!("{case:?}")));
  }
  if !case.hidden_env.is_empty() && !case.hidden_file.is_empty() {
    cx.label("hidden-both");
  }
  cx.sample(3, || json!({"args": args, "env": env, "file": file}));
  Ok(())
}

fn sources() -> BoxedStrategy<Sources> {
  prop_oneof![
    2 => Just(Sources::default()),
    5 => (any::<bool>(), any::<bool>(), any::<bool>()).prop_map(|(flag, env, file)| Sources { flag, env, file }),
    2 => Just(Sources { flag: true, env: true, file: true }),
  ]
  .boxed()
}

fn settings_strategy() -> BoxedStrategy<SettingsCase> {
  let values = proptest::collection::vec(sources(), VALUE_KEYS.len()).prop_map(|list| {
    let mut map: BTreeMap<String, Sources> = VALUE_KEYS
      .iter()
      .zip(list)
      .map(|((key, _, _), s)| (key.to_string(), s))
      .collect();
    // credentials: both of a pair set by at least one source, or neither
    for (user, pass) in [
      ("bitcoin_rpc_username", "bitcoin_rpc_password"),
      ("server_username", "server_password"),
    ] {
      let any = |s: &Sources| s.flag || s.env || s.file;
      let (u, p) = (any(&map[user]), any(&map[pass]));
      if u != p {
        map.insert(user.into(), Sources::default());
        map.insert(pass.into(), Sources::default());
      }
    }
    map
  });
  let bools = proptest::collection::vec(sources(), BOOL_KEYS.len()).prop_map(|list| {
    BOOL_KEYS
      .iter()
      .zip(list)
      .map(|(key, s)| (key.to_string(), s))
      .collect::<BTreeMap<_, _>>()
  });
  let location = prop_oneof![
    Just(ConfigLocation::ConfigFlag),
    Just(ConfigLocation::ConfigEnv),
    Just(ConfigLocation::ConfigDirFlag),
    Just(ConfigLocation::ConfigDirEnv),
    Just(ConfigLocation::DataDirFlag),
    Just(ConfigLocation::DataDirEnv),
    Just(ConfigLocation::ConfigFlagOverEnv),
    Just(ConfigLocation::ConfigDirFlagOverEnv),
    Just(ConfigLocation::ConfigEnvOverDirs),
  ];
  (
    values,
    bools,
    (
      proptest::option::of((0u8..5, any::<bool>())),
      proptest::option::of(0u8..5),
      proptest::option::of(0u8..5),
    ),
    proptest::collection::vec(0u8..6, 0..3),
    proptest::collection::vec(0u8..6, 0..3),
    location,
    any::<u16>(),
  )
    .prop_map(|(values, bools, chain, hidden_env, hidden_file, location, salt)| {
      let mut case = SettingsCase {
        values,
        bools,
        chain,
        hidden_env,
        hidden_file,
        location,
        salt,
      };
      // a config location given by flag/env with a higher-priority
      // config_dir/config elsewhere is not generated: one location per case
      case.values.remove("config");
      case
    })
    .boxed()
}

pub fn c36(s: &mut Session) -> Meta {
  let cases = s.tier().pick(300_000, 1_000_000);
  s.run_part(Part::new("precedence", cases, settings_strategy, settings_check).shrink_iters(1000));
  Meta {
    level: "exploration",
    rule: "For 17 value settings, the chain, 6 boolean switches and the hidden list: a generated subset of {command-line flag, ORD_ environment entry, config-file field} sets each with pairwise different values; the config file is located through --config, ORD_CONFIG, --config-dir, ORD_CONFIG_DIR, --datadir or ORD_DATA_DIR, and in three further modes a lower-priority location (ORD_CONFIG under --config, ORD_CONFIG_DIR under --config-dir, --config-dir under ORD_CONFIG) points at a decoy file whose values must never show up. Settings::merge(Options::try_parse_from(args), env) serialised with serde must show, per key, the value of the highest-priority source (documented defaults when none; data dir joined with the chain directory), booleans = OR of all sources, hidden = union of env and file. Non-trivial = at least one key set by >= 2 sources with different values; distinct by case.",
    assumptions: &["The environment is passed as the map Settings::merge receives from Settings::load (ORD_ prefix already stripped); process environment is not mutated because workers run in parallel"],
    required_labels: &["conflicting-sources", "hidden-both", "location-ConfigFlag", "location-ConfigEnv", "location-ConfigDirFlag", "location-ConfigDirEnv", "location-DataDirFlag", "location-DataDirEnv", "location-ConfigFlagOverEnv", "location-ConfigDirFlagOverEnv", "location-ConfigEnvOverDirs"],
  }
}
