//! C01 (FIFO sat ranges), C02 (partition and lookups), C17 (address index),
//! C12 (independence from scheduling).

use {
  crate::{
    chain::{
      ChainSpec, build_chain,
      strategy::{Profile, chain_spec},
    },
    history::{self, Run, masked, statistic},
    model::{
      first_sat, is_op_return,
      sats::{Range, RefSats, coalesce, total},
      subsidy,
    },
    node::IndexConfig,
    runner::{CheckResult, Cx, Fail, Meta, Part, Session, fingerprint},
    util::pick_index,
  },
  bitcoin::{Block, Network, OutPoint},
  ordinals::{Sat, SatPoint},
  proptest::prelude::*,
  serde::{Deserialize, Serialize},
  serde_json::json,
  std::collections::{BTreeMap, BTreeSet},
};

#[derive(Clone, Debug, Serialize, Deserialize)]
pub struct ConfigSpec {
  pub sats: bool,
  pub addresses: bool,
  pub transactions: bool,
  pub runes: bool,
  pub no_inscriptions: bool,
  pub commit_interval: u8,
  pub integration_test: bool,
}

impl ConfigSpec {
  pub fn config(&self) -> IndexConfig {
    IndexConfig {
      sats: self.sats,
      addresses: self.addresses,
      transactions: self.transactions,
      runes: self.runes,
      no_inscriptions: self.no_inscriptions,
      commit_interval: if self.commit_interval == 0 {
        5000
      } else {
        usize::from(self.commit_interval)
      },
      savepoint_interval: 10,
      max_savepoints: 2,
      integration_test: self.integration_test,
      first_inscription_height: None,
    }
  }
}

pub fn config_spec(force_sats: Option<bool>, force_addresses: Option<bool>) -> BoxedStrategy<ConfigSpec> {
  (
    any::<bool>(),
    any::<bool>(),
    any::<bool>(),
    any::<bool>(),
    proptest::bool::weighted(0.2),
    prop_oneof![4 => 1u8..9, 1 => Just(0u8)],
    proptest::bool::weighted(0.7),
  )
    .prop_map(move |(sats, addresses, transactions, runes, no_inscriptions, commit_interval, integration_test)| ConfigSpec {
      sats: force_sats.unwrap_or(sats),
      addresses: force_addresses.unwrap_or(addresses),
      transactions,
      runes,
      no_inscriptions,
      commit_interval,
      integration_test,
    })
    .boxed()
}

/// Cut positions (as 16-bit fractions of the chain length) at which the
/// index is updated; the final update at the tip is implicit.
#[derive(Clone, Debug, Serialize, Deserialize)]
pub struct ScheduleSpec {
  pub cuts: Vec<u16>,
  pub reopen: Vec<bool>,
}

impl ScheduleSpec {
  /// Block counts (1..=len) after which update is called, ending with len.
  pub fn stops(&self, len: usize) -> Vec<(usize, bool)> {
    let mut stops: BTreeMap<usize, bool> = BTreeMap::new();
    for (i, cut) in self.cuts.iter().enumerate() {
      if len > 0 {
        let at = pick_index(*cut, len) + 1;
        let reopen = self.reopen.get(i).copied().unwrap_or(false);
        *stops.entry(at).or_default() |= reopen;
      }
    }
    stops.entry(len).or_insert(false);
    stops.into_iter().collect()
  }
}

pub fn schedule_spec(max_cuts: usize) -> BoxedStrategy<ScheduleSpec> {
  (
    proptest::collection::vec(any::<u16>(), 0..=max_cuts),
    proptest::collection::vec(proptest::bool::weighted(0.3), max_cuts),
  )
    .prop_map(|(cuts, reopen)| ScheduleSpec { cuts, reopen })
    .boxed()
}

#[derive(Clone, Debug, Serialize, Deserialize)]
pub struct SatsCase {
  pub chain: ChainSpec,
  pub config: ConfigSpec,
  pub schedule: ScheduleSpec,
}

pub fn genesis(network: Network) -> Block {
  bitcoin::blockdata::constants::genesis_block(network)
}

/// Applies genesis + the first `n` blocks to a fresh model.
pub fn model_at(network: Network, blocks: &[Block], n: usize) -> RefSats {
  let mut model = RefSats::new();
  model.apply_block(&genesis(network));
  for block in &blocks[..n] {
    model.apply_block(block);
  }
  model
}

/// Outputs of duplicated (re-created) coinbase txids that are spent later in
/// the chain: the shape of the recorded finding "duplicate txid re-created
/// and spent within one commit batch leaves the displaced row behind".
pub fn duplicate_respent(blocks: &[Block]) -> BTreeSet<OutPoint> {
  let mut seen = BTreeSet::new();
  let mut duplicated = BTreeSet::new();
  for block in blocks {
    let txid = block.txdata[0].compute_txid();
    if !seen.insert(txid) {
      duplicated.insert(txid);
    }
  }
  let mut out = BTreeSet::new();
  for block in blocks {
    for tx in block.txdata.iter().skip(1) {
      for input in &tx.input {
        if duplicated.contains(&input.previous_output.txid) {
          out.insert(input.previous_output);
        }
      }
    }
  }
  out
}

fn special(outpoint: &OutPoint) -> bool {
  *outpoint == OutPoint::null() || *outpoint == ord::unbound_outpoint()
}

fn describe_chain(blocks: &[Block]) -> serde_json::Value {
  json!(
    blocks
      .iter()
      .map(|b| {
        json!({
          "txs": b.txdata.len(),
          "coinbase_outputs": b.txdata[0].output.iter().map(|o| o.value.to_sat()).collect::<Vec<_>>(),
          "tx_shapes": b.txdata.iter().skip(1).map(|t| format!("{}in/{}out", t.input.len(), t.output.len())).collect::<Vec<_>>(),
        })
      })
      .collect::<Vec<_>>()
  )
}

fn label_build(cx: &Cx, stats: &crate::chain::BuildStats) {
  if stats.fee_paying_txs_max_per_block >= 2 {
    cx.label("two-fee-payers-in-a-block");
  }
  if stats.same_block_spends > 0 {
    cx.label("same-block-spend");
  }
  if stats.multi_output_coinbases > 0 {
    cx.label("multi-output-coinbase");
  }
  if stats.underpaying_coinbases > 0 {
    cx.label("underpaying-coinbase");
  }
  if stats.duplicate_txids > 0 {
    cx.label("duplicate-txid");
  }
  if stats.zero_value_outputs > 0 {
    cx.label("zero-value-output");
  }
  if stats.op_return_outputs > 0 {
    cx.label("op-return-output");
  }
}

// ================================================================= C01

fn c01_check(case: &SatsCase, cx: &Cx) -> CheckResult {
  let network = Network::Regtest;
  let built = build_chain(network, &case.chain);
  let blocks = &built.blocks;
  let mut config = case.config.config();
  config.sats = true;
  let mut run = Run::new(network, &config).map_err(|e| Fail::new("HARNESS-FAULT", format!("open: {e:#}")))?;
  let mut split = false;
  for (stop, reopen) in case.schedule.stops(blocks.len()) {
    run.set_chain(&blocks[..stop]);
    if let Err(err) = run.update() {
      return cx.fail(Fail::new(
        "c01|update-error",
        format!("Index::update failed at {stop} blocks: {err:#}"),
      ));
    }
    let model = model_at(network, blocks, stop);
    let index = run.index();
    for (outpoint, ranges) in &model.utxo {
      let listed = index
        .list(*outpoint)
        .map_err(|e| Fail::new("HARNESS-FAULT", format!("list: {e:#}")))?;
      let Some(listed) = listed else {
        return cx.fail(Fail::new(
          "c01|missing-output",
          format!("after {stop} blocks: unspent output {outpoint} is not listed; the BIP gives it {:?}", coalesce(ranges)),
        ));
      };
      if coalesce(&listed) != coalesce(ranges) {
        return cx.fail(Fail::new(
          "c01|ranges",
          format!(
            "after {stop} blocks: output {outpoint} lists {:?} but first-in-first-out assignment gives {:?}",
            coalesce(&listed),
            coalesce(ranges)
          ),
        ));
      }
      if coalesce(ranges).len() >= 2 {
        split = true;
      }
    }
    let lost = index
      .list(OutPoint::null())
      .map_err(|e| Fail::new("HARNESS-FAULT", format!("list: {e:#}")))?
      .unwrap_or_default();
    if coalesce(&lost) != coalesce(&model.lost) {
      return cx.fail(Fail::new(
        "c01|lost",
        format!(
          "after {stop} blocks: lost sats are {:?} but the BIP gives {:?}",
          coalesce(&lost),
          coalesce(&model.lost)
        ),
      ));
    }
    let dump = run.dump().map_err(|e| Fail::new("HARNESS-FAULT", format!("dump: {e:#}")))?;
    for (outpoint, _) in &dump.utxos {
      if !special(outpoint) && !model.utxo.contains_key(outpoint) {
        let sig = if duplicate_respent(&blocks[..stop]).contains(outpoint) {
          "c01|stale-output|duplicate-txid-respent"
        } else {
          "c01|stale-output"
        };
        return cx.fail(Fail::new(
          sig,
          format!("after {stop} blocks: the index still holds {outpoint}, which is spent or never existed"),
        ));
      }
    }
    if statistic(&dump, history::STAT_LOST_SATS) != model.lost_total() {
      return cx.fail(Fail::new(
        "c01|lost-statistic",
        format!(
          "after {stop} blocks: lost sats statistic {} but {} sats are lost",
          statistic(&dump, history::STAT_LOST_SATS),
          model.lost_total()
        ),
      ));
    }
    if reopen {
      run
        .reopen()
        .map_err(|e| Fail::new("c01|reopen", format!("reopen failed: {e:#}")))?;
    }
  }
  label_build(cx, &built.stats);
  if split {
    cx.label("output-with-split-ranges");
  }
  let s = &built.stats;
  if s.fee_paying_txs_max_per_block >= 2
    || split
    || s.multi_output_coinbases > 0
    || s.underpaying_coinbases > 0
    || s.same_block_spends > 0
    || s.duplicate_txids > 0
  {
    cx.nontrivial(fingerprint(&format!("{:?}", case.chain)));
  }
  cx.sample(3, || json!({"config": format!("{:?}", case.config), "schedule": format!("{:?}", case.schedule.stops(blocks.len())), "blocks": describe_chain(blocks)}));
  Ok(())
}

fn sats_case(profile: Profile, max_cuts: usize) -> BoxedStrategy<SatsCase> {
  (
    chain_spec(&profile),
    config_spec(Some(true), None),
    schedule_spec(max_cuts),
  )
    .prop_map(|(chain, config, schedule)| SatsCase {
      chain,
      config,
      schedule,
    })
    .boxed()
}

fn thorough_profile(mut p: Profile) -> Profile {
  p.blocks = 2..40;
  p.txs = 0..7;
  p.prefix = vec![0, 0, 2, 100];
  p
}

pub fn c01(s: &mut Session) -> Meta {
  let t = s.tier();
  let profile = t.pick(Profile::sats(), thorough_profile(Profile::sats()));
  s.run_part(
    Part::new(
      "fifo",
      t.pick(1200, 24_000),
      move || sats_case(profile.clone(), 2),
      c01_check,
    )
    .shrink_iters(400)
    .timeout(300),
  );
  Meta {
    level: "exploration",
    rule: "Valid chains built by construction (2..13 blocks, thorough ..39 plus a 100-block mature prefix; 0..4 transactions per block with 1..4 inputs and 0..5 outputs; zero-value, OP_RETURN, empty and raw scripts; multi-output, under-paying and zero-claim coinbases; fee-paying and fee-free transactions in any order; spends of outputs created earlier in the same block; byte-identical duplicate coinbases) are indexed with --index-sats under random other flags, commit interval 1..8 or 5000, 1..3 update calls with optional reopen. After every update call: Index::list of every unspent output and of the lost-sats pseudo-output, coalesced, must equal RefSats (bip.mediawiki algorithm on plain range lists), the index must hold no output the model lacks, and the lost-sats statistic must equal the model's total. Non-trivial = chain with a block with >= 2 fee payers, an output with split ranges, a multi-output or under-paying coinbase, a same-block spend or a duplicate txid; distinct by chain spec.",
    assumptions: &[
      "mock node (crates/mockcore) serves the generated blocks; coinbase maturity is not enforced, as in the repository's tests",
      "comparison is on coalesced range lists (which sats are where, not how ranges are cut)",
    ],
    required_labels: &["two-fee-payers-in-a-block", "same-block-spend", "multi-output-coinbase", "underpaying-coinbase", "duplicate-txid", "zero-value-output", "op-return-output", "output-with-split-ranges"],
  }
}

// ================================================================= C02

fn c02_check(case: &SatsCase, cx: &Cx) -> CheckResult {
  let network = Network::Regtest;
  let built = build_chain(network, &case.chain);
  let blocks = &built.blocks;
  let mut config = case.config.config();
  config.sats = true;
  let mut run = Run::new(network, &config).map_err(|e| Fail::new("HARNESS-FAULT", format!("open: {e:#}")))?;
  let mut interesting = false;
  for (stop, reopen) in case.schedule.stops(blocks.len()) {
    run.set_chain(&blocks[..stop]);
    if let Err(err) = run.update() {
      return cx.fail(Fail::new("c02|update-error", format!("Index::update failed: {err:#}")));
    }
    let model = model_at(network, blocks, stop);
    let dump = run.dump().map_err(|e| Fail::new("HARNESS-FAULT", format!("dump: {e:#}")))?;
    let index = run.index();
    let mined_end = first_sat(stop as u64 + 1);

    // 1. partition: all ranges of all entries are disjoint and, with the
    // destroyed ranges, cover exactly [0, first sat of the next block)
    let mut all: Vec<(u64, u64, OutPoint)> = Vec::new();
    let mut values: BTreeMap<OutPoint, u64> = BTreeMap::new();
    for block in std::iter::once(&genesis(network)).chain(blocks[..stop].iter()) {
      for tx in &block.txdata {
        let txid = tx.compute_txid();
        for (vout, o) in tx.output.iter().enumerate() {
          values.insert(OutPoint { txid, vout: vout as u32 }, o.value.to_sat());
        }
      }
    }
    for (outpoint, entry) in &dump.utxos {
      let ranges = entry.ranges.clone().unwrap_or_default();
      if !special(outpoint) {
        let expected = values.get(outpoint).copied();
        if expected != Some(total(&ranges)) {
          let sig = if duplicate_respent(&blocks[..stop]).contains(outpoint) {
            "c02|value|duplicate-txid-respent"
          } else {
            "c02|value"
          };
          return cx.fail(Fail::new(
            sig,
            format!(
              "after {stop} blocks: ranges of {outpoint} add up to {} but the output's value is {expected:?}",
              total(&ranges)
            ),
          ));
        }
      }
      for (a, b) in ranges {
        if b < a {
          return cx.fail(Fail::new("c02|inverted-range", format!("range ({a},{b}) in {outpoint}")));
        }
        if b > a {
          all.push((a, b, *outpoint));
        }
      }
    }
    for (a, b) in &model.destroyed {
      if b > a {
        all.push((*a, *b, OutPoint::null()));
      }
    }
    all.sort();
    let mut cursor = 0u64;
    for (a, b, outpoint) in &all {
      if *a < cursor {
        // which entries hold this sat?
        let holders: Vec<OutPoint> = all
          .iter()
          .filter(|(x, y, _)| x <= a && a < y)
          .map(|(_, _, o)| *o)
          .collect();
        let respent = duplicate_respent(&blocks[..stop]);
        let sig = if holders.iter().any(|o| respent.contains(o)) {
          "c02|overlap|duplicate-txid-respent"
        } else {
          "c02|overlap"
        };
        return cx.fail(Fail::new(
          sig,
          format!("after {stop} blocks: sat {a} is in two places: {holders:?} (the null outpoint stands for 'destroyed by a duplicate txid')"),
        ));
      }
      if *a > cursor {
        return cx.fail(Fail::new(
          "c02|gap",
          format!("after {stop} blocks: sats {cursor}..{a} are nowhere"),
        ));
      }
      cursor = *b;
    }
    if cursor != mined_end {
      return cx.fail(Fail::new(
        "c02|supply",
        format!("after {stop} blocks: sats up to {cursor} are accounted for but {mined_end} were mined"),
      ));
    }

    // 2. find agrees with the partition for boundary, block-start and
    // pseudo-random sats
    let mut probes: BTreeSet<u64> = BTreeSet::new();
    for (a, b, _) in &all {
      probes.insert(*a);
      probes.insert(*b - 1);
      if *a > 0 {
        probes.insert(*a - 1);
      }
      if *b < mined_end {
        probes.insert(*b);
      }
    }
    for h in 0..=stop as u64 {
      if subsidy(h) > 0 {
        probes.insert(first_sat(h));
      }
    }
    let mut x = fingerprint(&format!("{:?}", case.schedule)) | 1;
    for _ in 0..20 {
      x = x.wrapping_mul(6364136223846793005).wrapping_add(1442695040888963407);
      probes.insert((x >> 11) % mined_end.max(1));
    }
    let probes: Vec<u64> = probes.into_iter().filter(|s| *s < mined_end).take(160).collect();
    for sat in &probes {
      let found = index
        .find(Sat(*sat))
        .map_err(|e| Fail::new("HARNESS-FAULT", format!("find: {e:#}")))?;
      let expected = model.locate(*sat).map(|(outpoint, offset)| SatPoint { outpoint, offset });
      if found != expected {
        return cx.fail(Fail::new(
          "c02|find",
          format!("after {stop} blocks: find({sat}) = {found:?} but the sat is at {expected:?}"),
        ));
      }
    }
    // sats of blocks not yet indexed are not found
    for sat in [mined_end, mined_end + 1, first_sat(stop as u64 + 2), Sat::LAST.0] {
      if sat < Sat::SUPPLY {
        let found = index
          .find(Sat(sat))
          .map_err(|e| Fail::new("HARNESS-FAULT", format!("find: {e:#}")))?;
        if found.is_some() {
          return cx.fail(Fail::new(
            "c02|find-unmined",
            format!("after {stop} blocks: unmined sat {sat} found at {found:?}"),
          ));
        }
      }
    }
    // find_range: pieces tile the interval (minus destroyed sats) and agree with find
    for pair in probes.windows(2).step_by(3).take(25) {
      let (start, end) = (pair[0], pair[1] + 1);
      let pieces = index
        .find_range(Sat(start), Sat(end))
        .map_err(|e| Fail::new("HARNESS-FAULT", format!("find_range: {e:#}")))?;
      let Some(pieces) = pieces else {
        return cx.fail(Fail::new(
          "c02|find-range-none",
          format!("after {stop} blocks: find_range({start}, {end}) reports not found for mined sats"),
        ));
      };
      let mut covered: Vec<Range> = pieces.iter().map(|p| (p.start, p.start + p.size)).collect();
      covered.sort();
      let mut expected: Vec<Range> = Vec::new();
      let mut s = start;
      while s < end {
        // maximal run of located sats
        match model.locate(s) {
          None => s += 1,
          Some(_) => {
            let run_start = s;
            while s < end && model.locate(s).is_some() && s - run_start < 4096 {
              s += 1;
            }
            expected.push((run_start, s));
          }
        }
        if end - start > 20_000 {
          break;
        }
      }
      if end - start <= 20_000 && coalesce(&covered) != coalesce(&expected) {
        return cx.fail(Fail::new(
          "c02|find-range-cover",
          format!(
            "after {stop} blocks: find_range({start}, {end}) covers {:?} but the located sats are {:?}",
            coalesce(&covered),
            coalesce(&expected)
          ),
        ));
      }
      for piece in &pieces {
        let expected = model
          .locate(piece.start)
          .map(|(outpoint, offset)| SatPoint { outpoint, offset });
        if Some(piece.satpoint) != expected {
          return cx.fail(Fail::new(
            "c02|find-range-satpoint",
            format!(
              "after {stop} blocks: find_range piece starting at {} reports {} but find gives {expected:?}",
              piece.start, piece.satpoint
            ),
          ));
        }
      }
    }
    if mined_end < Sat::SUPPLY {
      let beyond = index
        .find_range(Sat(mined_end.saturating_sub(1)), Sat(mined_end + 1))
        .map_err(|e| Fail::new("HARNESS-FAULT", format!("find_range: {e:#}")))?;
      if beyond.is_some() {
        return cx.fail(Fail::new(
          "c02|find-range-unmined",
          "find_range over an unmined sat reports a location".to_string(),
        ));
      }
    }

    // 3. rare-sat table == first sat of each mined block at its location
    let rare = index
      .rare_sat_satpoints()
      .map_err(|e| Fail::new("HARNESS-FAULT", format!("rare: {e:#}")))?;
    let mut expected_rare = Vec::new();
    for h in 0..=stop as u64 {
      if subsidy(h) > 0
        && let Some((outpoint, offset)) = model.locate(first_sat(h))
      {
        expected_rare.push((Sat(first_sat(h)), SatPoint { outpoint, offset }));
      }
    }
    let destroyed_rare: Vec<u64> = (0..=stop as u64)
      .filter(|h| subsidy(*h) > 0 && model.locate(first_sat(*h)).is_none())
      .map(first_sat)
      .collect();
    let rare_live: Vec<(Sat, SatPoint)> = rare
      .iter()
      .filter(|(sat, _)| !destroyed_rare.contains(&sat.0))
      .cloned()
      .collect();
    if rare_live != expected_rare {
      let first = rare_live
        .iter()
        .zip(&expected_rare)
        .find(|(a, b)| a != b)
        .map(|(a, b)| format!("{a:?} vs {b:?}"))
        .unwrap_or_else(|| format!("{} vs {} entries", rare_live.len(), expected_rare.len()));
      return cx.fail(Fail::new(
        "c02|rare-table",
        format!("after {stop} blocks: rare sat table disagrees with the sat index: {first}"),
      ));
    }
    for (sat, satpoint) in &rare {
      if destroyed_rare.contains(&sat.0) {
        // a rare sat destroyed by a duplicate txid must not be reported anywhere
        let found = index
          .find(*sat)
          .map_err(|e| Fail::new("HARNESS-FAULT", format!("find: {e:#}")))?;
        if found != Some(*satpoint) {
          cx.fail(Fail::new(
            "c02|rare-table-destroyed-sat",
            format!(
              "after {stop} blocks: rare sat table reports destroyed sat {sat} at {satpoint} while find reports {found:?}"
            ),
          ))?;
        }
      }
    }

    let multi = dump
      .utxos
      .iter()
      .any(|(o, e)| !special(o) && coalesce(e.ranges.as_deref().unwrap_or(&[])).len() >= 2);
    if multi && !model.lost.is_empty() {
      interesting = true;
    }
    if reopen {
      run
        .reopen()
        .map_err(|e| Fail::new("c02|reopen", format!("reopen failed: {e:#}")))?;
    }
  }
  label_build(cx, &built.stats);
  if interesting {
    cx.label("split-output-and-lost-sats");
    cx.nontrivial(fingerprint(&format!("{:?}", case.chain)));
  }
  cx.sample(3, || json!({"config": format!("{:?}", case.config), "blocks": describe_chain(blocks)}));
  Ok(())
}

pub fn c02(s: &mut Session) -> Meta {
  let t = s.tier();
  let mut profile = t.pick(Profile::sats(), thorough_profile(Profile::sats()));
  profile.p_dup_coinbase = 0.04;
  s.run_part(
    Part::new(
      "partition-and-lookups",
      t.pick(800, 16_000),
      move || sats_case(profile.clone(), 4),
      c02_check,
    )
    .shrink_iters(300)
    .timeout(300),
  );
  Meta {
    level: "exploration",
    rule: "Same chain generator as C01 (own seed stream), 1..5 update calls. After every update call the H1 table dump is audited: all sat ranges of all output entries and the lost-sats entry are pairwise disjoint and, with the sats destroyed by duplicate txids (model), cover exactly [0, first sat of the next block); each real output's ranges add up to the value in the block that created it. Lookups: Index::find for up to 160 probe sats (every range boundary +-1, every block's first sat, pseudo-random) equals the model location; unmined sats are not found; Index::find_range over probe intervals tiles the located sats and each piece agrees with find; rare_sat_satpoints equals the first sat of every mined block at its model location. Non-trivial = a checkpoint where an output holds >= 2 non-adjacent ranges and lost sats exist; distinct by chain spec.",
    assumptions: &["as C01"],
    required_labels: &["split-output-and-lost-sats", "duplicate-txid", "underpaying-coinbase"],
  }
}

// ================================================================= C17

fn c17_check(case: &SatsCase, cx: &Cx) -> CheckResult {
  let network = Network::Regtest;
  let built = build_chain(network, &case.chain);
  let blocks = &built.blocks;
  let mut config = case.config.config();
  config.addresses = true;
  let mut run = Run::new(network, &config).map_err(|e| Fail::new("HARNESS-FAULT", format!("open: {e:#}")))?;
  let mut reuse = false;
  let mut previous_live: BTreeSet<OutPoint> = BTreeSet::new();
  for (stop, reopen) in case.schedule.stops(blocks.len()) {
    run.set_chain(&blocks[..stop]);
    if let Err(err) = run.update() {
      return cx.fail(Fail::new("c17|update-error", format!("Index::update failed: {err:#}")));
    }
    // reference: script -> unspent outpoints, straight from the blocks
    let mut unspent: BTreeMap<OutPoint, (Vec<u8>, u64)> = BTreeMap::new();
    for block in std::iter::once(&genesis(network)).chain(blocks[..stop].iter()) {
      for tx in block.txdata.iter().skip(1).chain(block.txdata.iter().take(1)) {
        for input in &tx.input {
          if !input.previous_output.is_null() {
            unspent.remove(&input.previous_output);
          }
        }
        let txid = tx.compute_txid();
        for (vout, o) in tx.output.iter().enumerate() {
          unspent.insert(
            OutPoint { txid, vout: vout as u32 },
            (o.script_pubkey.to_bytes(), o.value.to_sat()),
          );
        }
      }
    }
    let mut expected: BTreeSet<(Vec<u8>, OutPoint)> = unspent
      .iter()
      .map(|(op, (script, _))| (script.clone(), *op))
      .collect();
    let dump = run.dump().map_err(|e| Fail::new("HARNESS-FAULT", format!("dump: {e:#}")))?;
    let mut actual: BTreeSet<(Vec<u8>, OutPoint)> = dump.script_to_outpoint.iter().cloned().collect();
    // the two pseudo-outputs are listed under the empty script: not outputs
    actual.retain(|(_, op)| !special(op));
    expected.retain(|(_, op)| !special(op));
    if actual != expected {
      let missing: Vec<_> = expected.difference(&actual).take(2).collect();
      let extra: Vec<_> = actual.difference(&expected).take(2).collect();
      let kind = if !extra.is_empty() { "stale" } else { "missing" };
      return cx.fail(Fail::new(
        format!("c17|{kind}"),
        format!(
          "after {stop} blocks: address index differs from the unspent outputs: missing {:?}, stale {:?}",
          missing.iter().map(|(s, o)| format!("{}:{o}", hex::encode(s))).collect::<Vec<_>>(),
          extra.iter().map(|(s, o)| format!("{}:{o}", hex::encode(s))).collect::<Vec<_>>()
        ),
      ));
    }
    if dump.script_to_outpoint.len() != actual.len() + dump.script_to_outpoint.iter().filter(|(_, op)| special(op)).count() {
      return cx.fail(Fail::new("c17|duplicate-row", "a (script, outpoint) pair is listed twice".to_string()));
    }
    // every entry's script and value match the creating transaction
    for (outpoint, entry) in &dump.utxos {
      if special(outpoint) {
        continue;
      }
      let Some((script, value)) = unspent.get(outpoint) else {
        return cx.fail(Fail::new(
          "c17|stale-entry",
          format!("after {stop} blocks: entry for {outpoint}, which is not unspent"),
        ));
      };
      if entry.script.as_deref() != Some(script.as_slice()) || entry.value != *value {
        return cx.fail(Fail::new(
          "c17|entry",
          format!(
            "after {stop} blocks: entry of {outpoint} records script {:?} value {} but the transaction has script {} value {value}",
            entry.script.as_ref().map(hex::encode),
            entry.value,
            hex::encode(script)
          ),
        ));
      }
    }
    if dump.utxos.iter().filter(|(o, _)| !special(o)).count() != unspent.len() {
      return cx.fail(Fail::new(
        "c17|missing-entry",
        format!("after {stop} blocks: {} entries for {} unspent outputs", dump.utxos.len(), unspent.len()),
      ));
    }
    // the public API for address-shaped scripts
    for script in unspent.values().map(|(s, _)| s.clone()).collect::<BTreeSet<_>>().iter().take(6) {
      if let Ok(address) = bitcoin::Address::from_script(bitcoin::Script::from_bytes(script), network) {
        let mut listed = run
          .index()
          .get_address_info(&address)
          .map_err(|e| Fail::new("HARNESS-FAULT", format!("address info: {e:#}")))?;
        listed.sort();
        let mut want: Vec<OutPoint> = unspent
          .iter()
          .filter(|(_, (s, _))| s == script)
          .map(|(o, _)| *o)
          .collect();
        want.sort();
        if listed != want {
          return cx.fail(Fail::new(
            "c17|address-info",
            format!("after {stop} blocks: get_address_info({address}) = {listed:?}, unspent outputs are {want:?}"),
          ));
        }
      }
    }
    // non-trivial: a script with >= 2 unspent outputs, one new since the last
    // checkpoint, while another output of that script was spent since then
    let live: BTreeSet<OutPoint> = unspent.keys().copied().collect();
    let by_script: BTreeMap<&Vec<u8>, Vec<&OutPoint>> = unspent.iter().fold(BTreeMap::new(), |mut m, (op, (s, _))| {
      m.entry(s).or_default().push(op);
      m
    });
    let spent_since: Vec<&OutPoint> = previous_live.difference(&live).collect();
    if by_script.values().any(|v| v.len() >= 2 && v.iter().any(|o| !previous_live.contains(*o)))
      && !spent_since.is_empty()
    {
      reuse = true;
    }
    previous_live = live;
    if reopen {
      run
        .reopen()
        .map_err(|e| Fail::new("c17|reopen", format!("reopen failed: {e:#}")))?;
    }
  }
  label_build(cx, &built.stats);
  if built.blocks.iter().any(|b| b.txdata.iter().any(|t| t.output.iter().any(|o| o.script_pubkey.is_empty()))) {
    cx.label("empty-script-output");
  }
  if reuse {
    cx.label("reused-script-created-and-spent");
    cx.nontrivial(fingerprint(&format!("{:?}", case.chain)));
  }
  let _ = is_op_return;
  cx.sample(3, || json!({"config": format!("{:?}", case.config), "blocks": describe_chain(blocks)}));
  Ok(())
}

pub fn c17(s: &mut Session) -> Meta {
  let t = s.tier();
  let mut profile = t.pick(Profile::sats(), thorough_profile(Profile::sats()));
  profile.script_pool = 3;
  profile.p_odd_script = 0.1;
  profile.p_dup_coinbase = 0.0;
  let strategy = move || {
    (
      chain_spec(&profile),
      config_spec(None, Some(true)),
      schedule_spec(3),
    )
      .prop_map(|(chain, mut config, schedule)| {
        if config.commit_interval > 4 {
          config.commit_interval = config.commit_interval % 4 + 1;
        }
        SatsCase {
          chain,
          config,
          schedule,
        }
      })
      .boxed()
  };
  s.run_part(
    Part::new("address-index", t.pick(1000, 16_000), strategy, c17_check)
      .shrink_iters(300)
      .timeout(300),
  );
  Meta {
    level: "exploration",
    rule: "Chains as in C01 with only 3 P2TR and 3 P2WPKH scripts (heavy reuse), OP_RETURN, empty and raw scripts, same-block spends, indexed with --index-addresses (other flags random), commit interval 1..4 or 5000 so that spends hit both the in-memory cache and the table, 1..4 update calls with optional reopen. After every update call the script->outpoint multimap from the H1 dump must equal the set of unspent outputs computed directly from the blocks (pseudo-outputs excluded), without duplicates; every output entry's recorded script and value must equal the creating transaction's; get_address_info for address-shaped scripts must list exactly the unspent outputs. Non-trivial = a script with >= 2 unspent outputs of which one is new since the previous checkpoint while some output was spent; distinct by chain spec.",
    assumptions: &["OP_RETURN outputs stay listed as unspent (nothing can spend them); the property speaks about currently unspent outputs"],
    required_labels: &["reused-script-created-and-spent", "same-block-spend", "op-return-output", "empty-script-output"],
  }
}

// ================================================================= C12

#[derive(Clone, Debug, Serialize, Deserialize)]
pub struct ScheduleCase {
  pub chain: ChainSpec,
  pub config: ConfigSpec,
  pub a: (ScheduleSpec, u8),
  pub b: (ScheduleSpec, u8),
}

fn run_schedule(
  network: Network,
  blocks: &[Block],
  base: &IndexConfig,
  schedule: &ScheduleSpec,
  commit_interval: u8,
) -> Result<(ord::verif::Dump, u32, Vec<usize>), Fail> {
  let mut config = base.clone();
  config.commit_interval = if commit_interval == 0 { 5000 } else { usize::from(commit_interval) };
  let mut run = Run::new(network, &config).map_err(|e| Fail::new("HARNESS-FAULT", format!("open: {e:#}")))?;
  let stops = schedule.stops(blocks.len());
  for (stop, reopen) in &stops {
    run.set_chain(&blocks[..*stop]);
    run
      .update()
      .map_err(|e| Fail::new("c12|update-error", format!("Index::update failed at {stop} blocks: {e:#}")))?;
    if *reopen {
      run
        .reopen()
        .map_err(|e| Fail::new("c12|reopen", format!("reopen failed: {e:#}")))?;
    }
  }
  let dump = run.dump().map_err(|e| Fail::new("HARNESS-FAULT", format!("dump: {e:#}")))?;
  Ok((dump, run.reopens, stops.iter().map(|s| s.0).collect()))
}

fn c12_check(case: &ScheduleCase, cx: &Cx) -> CheckResult {
  let network = Network::Regtest;
  let built = build_chain(network, &case.chain);
  let blocks = &built.blocks;
  let base = case.config.config();
  let (a, reopens_a, stops_a) = match run_schedule(network, blocks, &base, &case.a.0, case.a.1) {
    Ok(x) => x,
    Err(fail) => return cx.fail(fail),
  };
  let (b, reopens_b, stops_b) = match run_schedule(network, blocks, &base, &case.b.0, case.b.1) {
    Ok(x) => x,
    Err(fail) => return cx.fail(fail),
  };
  if let Some(difference) = history::diff(&masked(&a), &masked(&b)) {
    let table = difference.split(' ').nth(1).unwrap_or("?").to_string();
    return cx.fail(Fail::new(
      format!("c12|{table}"),
      format!(
        "index content depends on scheduling: schedule A = updates at {stops_a:?} commit interval {}, schedule B = updates at {stops_b:?} commit interval {}: {difference}",
        case.a.1, case.b.1
      ),
    ));
  }
  label_build(cx, &built.stats);
  if reopens_a + reopens_b > 0 {
    cx.label("reopen");
  }
  if case.a.1 != case.b.1 {
    cx.label("different-commit-intervals");
  }
  if stops_a != stops_b {
    cx.label("different-update-partitions");
  }
  if built.stats.envelopes > 0 {
    cx.label("with-inscriptions");
  }
  if built.stats.runestones > 0 {
    cx.label("with-runes");
  }
  if (case.a.1 != case.b.1 || stops_a != stops_b) && built.stats.txs >= 2 {
    cx.nontrivial(fingerprint(&format!("{case:?}")));
  }
  cx.sample(3, || json!({"config": format!("{:?}", case.config), "A": {"updates_at": stops_a, "commit_interval": case.a.1}, "B": {"updates_at": stops_b, "commit_interval": case.b.1}, "blocks": describe_chain(blocks)}));
  Ok(())
}

pub fn c12(s: &mut Session) -> Meta {
  let t = s.tier();
  let mut profile = t.pick(Profile::mixed(), thorough_profile(Profile::mixed()));
  profile.p_dup_coinbase = 0.0;
  let strategy = move || {
    (
      chain_spec(&profile),
      config_spec(None, None),
      (schedule_spec(6), prop_oneof![4 => 1u8..6, 1 => Just(0u8)]),
      (schedule_spec(6), prop_oneof![4 => 1u8..6, 1 => Just(0u8)]),
    )
      .prop_map(|(chain, config, a, b)| ScheduleCase { chain, config, a, b })
      .boxed()
  };
  s.run_part(
    Part::new("schedules", t.pick(500, 8_000), strategy, c12_check)
      .shrink_iters(300)
      .timeout(300),
  );
  Meta {
    level: "exploration",
    rule: "A chain from the mixed profile (sats, inscriptions with parents/pointers/curses, runes with etchings/mints/edicts/cenotaphs, reused scripts, same-block spends; thorough: up to 39 blocks plus mature prefix) is indexed twice under the same flags with two generated schedules: partition of the blocks into 1..7 update calls, commit interval 1..5 or 5000, reopen (drop + Index::open) after any call. The two H1 table dumps must be equal after masking only Commits, InitialSyncTime, LastSavepointHeight, the write-transaction timestamp table and the savepoint ids; everything else (all tables, OutputsTraversed, SatRanges, LostSats, raw entry bytes) must match. Non-trivial = pair whose update partitions or commit intervals differ on a chain with >= 2 transactions; distinct by case.",
    assumptions: &["mock node reports headers=0, so with integration_test=false commits are additionally forced at savepoint heights (both settings generated)"],
    required_labels: &["reopen", "different-commit-intervals", "different-update-partitions", "with-inscriptions", "with-runes"],
  }
}
