//! Byte-level entry points for the coverage-guided targets (cargo-fuzz crate
//! in `harness/fuzz`). Each target decodes the fuzzer's bytes into a case of
//! an existing part of a property and runs that part's check, so that the
//! semantic oracle sits inside the target and a crashing input can be
//! replayed through `./check <ID> --replay <file>` like any other case.

use {
  crate::{
    props::{envelope, pure_ordinals, runestone, text},
    runner::{Cx, Fail, KnownFindings, ReplayFile, Stats, Tier},
  },
  serde_json::Value,
  std::{
    path::{Path, PathBuf},
    sync::OnceLock,
  },
};

pub struct Target {
  pub name: &'static str,
  pub property: &'static str,
  pub part: &'static str,
}

pub const TARGETS: &[Target] = &[
  Target {
    name: "runestone",
    property: "C25",
    part: "decipher",
  },
  Target {
    name: "varint",
    property: "C26",
    part: "varint",
  },
  Target {
    name: "witness",
    property: "C27",
    part: "totality",
  },
  Target {
    name: "text",
    property: "C31",
    part: "parsers",
  },
];

pub fn target(name: &str) -> Option<&'static Target> {
  TARGETS.iter().find(|t| t.name == name)
}

/// Splits `data` into chunks: a length byte, then that many bytes, repeated.
fn chunks(data: &[u8], max: usize) -> Vec<Vec<u8>> {
  let mut out = Vec::new();
  let mut rest = data;
  while let Some((&len, tail)) = rest.split_first() {
    if out.len() == max {
      break;
    }
    let len = usize::from(len).min(tail.len());
    out.push(tail[..len].to_vec());
    rest = &tail[len..];
  }
  out
}

fn runestone_case(data: &[u8]) -> runestone::DecipherCase {
  // first byte: layout. Low 2 bits = number of plain outputs before the
  // script under test, bit 2 = prepend the runestone magic so that the
  // fuzzer reaches the message logic quickly, bit 3 = a second raw script.
  let (layout, rest) = data.split_first().map(|(l, r)| (*l, r)).unwrap_or((0, &[][..]));
  let mut outputs = Vec::new();
  for k in 0..(layout & 3) {
    outputs.push(runestone::ScriptShape::Plain(k));
  }
  let (first, second) = if layout & 8 != 0 {
    rest.split_at(rest.len() / 2)
  } else {
    (rest, &[][..])
  };
  let mut script = Vec::new();
  if layout & 4 != 0 {
    script.extend([0x6a, 0x5d]);
    // the rest as one push, so that payload bytes are reached directly
    if first.len() < 76 {
      script.push(first.len() as u8);
    } else {
      script.push(0x4d);
      script.extend((first.len().min(65535) as u16).to_le_bytes());
    }
  }
  script.extend(first);
  outputs.push(runestone::ScriptShape::Raw(script));
  if layout & 8 != 0 {
    outputs.push(runestone::ScriptShape::Raw(second.to_vec()));
  }
  runestone::DecipherCase { outputs }
}

fn witness_case(data: &[u8]) -> envelope::WitnessCase {
  // up to three inputs of up to four witness items each
  let items = chunks(data, 12);
  let mut witnesses: Vec<Vec<Vec<u8>>> = Vec::new();
  for (i, item) in items.into_iter().enumerate() {
    if i % 4 == 0 {
      witnesses.push(Vec::new());
    }
    witnesses.last_mut().unwrap().push(item);
  }
  envelope::WitnessCase { witnesses }
}

pub fn case_value(target: &Target, data: &[u8]) -> Value {
  match target.name {
    "runestone" => serde_json::to_value(runestone_case(data)).unwrap(),
    "varint" => serde_json::to_value(pure_ordinals::VarintCase::Bytes(data.to_vec())).unwrap(),
    "witness" => serde_json::to_value(witness_case(data)).unwrap(),
    "text" => serde_json::to_value(text::TextCase {
      input: String::from_utf8_lossy(data).to_string(),
    })
    .unwrap(),
    _ => Value::Null,
  }
}

fn standalone() -> (&'static Stats, &'static KnownFindings) {
  static STATS: OnceLock<Stats> = OnceLock::new();
  static KNOWN: OnceLock<KnownFindings> = OnceLock::new();
  (STATS.get_or_init(Stats::default), KNOWN.get_or_init(KnownFindings::load))
}

/// Runs the oracle of `target` on `data`.
pub fn run(target: &Target, data: &[u8]) -> Result<(), Fail> {
  let (stats, known) = standalone();
  let cx = Cx {
    stats,
    counting: false,
    known,
    property: target.property,
    tier: Tier::Quick,
    strict: false,
  };
  match target.name {
    "runestone" => runestone::decipher_check(&runestone_case(data), &cx),
    "varint" => pure_ordinals::varint_check(&pure_ordinals::VarintCase::Bytes(data.to_vec()), &cx),
    "witness" => envelope::witness_check(&witness_case(data), &cx),
    "text" => text::text_check(
      &text::TextCase {
        input: String::from_utf8_lossy(data).to_string(),
      },
      &cx,
    ),
    _ => Ok(()),
  }
}

/// Entry point used by the fuzz targets: a failed oracle aborts.
pub fn fuzz_one(name: &str, data: &[u8]) {
  let Some(target) = target(name) else {
    return;
  };
  if let Err(fail) = run(target, data) {
    panic!("[{}] {}", fail.sig, fail.msg);
  }
}

/// Turns a libFuzzer crash file into a replay file of the property's part.
pub fn import(name: &str, crash: &Path) -> Result<(String, PathBuf), String> {
  let target = target(name).ok_or_else(|| format!("unknown fuzz target {name}"))?;
  let data = std::fs::read(crash).map_err(|e| format!("{}: {e}", crash.display()))?;
  let file = ReplayFile {
    property: target.property.to_string(),
    part: target.part.to_string(),
    seed: 0,
    sig: format!("fuzz|{name}"),
    message: format!("input found by the coverage-guided target `{name}` ({} bytes, hex {})", data.len(), hex::encode(&data)),
    case: case_value(target, &data),
  };
  let dir = Path::new(crate::runner::VERIF_DIR).join("replays").join(target.property);
  std::fs::create_dir_all(&dir).map_err(|e| e.to_string())?;
  let path = dir.join(format!("{}-fuzz-{}-{:016x}.json", target.property, name, crate::runner::fingerprint(&data)));
  std::fs::write(&path, serde_json::to_string_pretty(&file).unwrap()).map_err(|e| e.to_string())?;
  Ok((target.property.to_string(), path))
}

/// Seed inputs for a target's corpus: a few small valid shapes.
pub fn seeds(name: &str) -> Vec<Vec<u8>> {
  match name {
    "runestone" => vec![
      vec![4],
      vec![4, 0, 1, 2, 3],
      vec![5, 2, 1, 4, 100, 20, 10],
      vec![6, 0, 10, 1, 5, 0, 0, 0, 3, 7, 0],
      vec![4, 22, 1, 126, 0],
      vec![0, 0x6a, 0x5d, 2, 20, 1],
      vec![12, 2, 3, 0x6a, 0x5d, 1, 0],
    ],
    "varint" => vec![vec![0], vec![0x7f], vec![0x80, 0x01], vec![0xff; 18].into_iter().chain([0x03]).collect(), vec![0x80; 19]],
    "witness" => vec![
      vec![8, 0, 0x63, 3, b'o', b'r', b'd', 0x68, 0, 0],
      {
        let mut script = vec![0x00, 0x63, 0x03, b'o', b'r', b'd', 0x01, 0x01, 0x04, b't', b'e', b'x', b't', 0x00, 0x02, b'h', b'i', 0x68];
        let mut v = vec![script.len() as u8];
        v.append(&mut script);
        v.extend([1, 0xc0]);
        v
      },
    ],
    "text" => [
      "0", "2099999997689999", "nvtdijuwxlp", "0°0′0″0‴", "1.5", "50%", "100.0%", "A•B", "UNCOMMON•GOODS", "1:2",
      "0000000000000000000000000000000000000000000000000000000000000000i0",
      "0000000000000000000000000000000000000000000000000000000000000000:0:0", "1e3", "1 btc", "10.5sat", "NAN%", "-1",
    ]
    .iter()
    .map(|s| s.as_bytes().to_vec())
    .collect(),
    _ => Vec::new(),
  }
}
