//! Driving a real `ord::Index` over a generated chain: mock node, index
//! directory, update calls, reopen, dumps.

use {
  crate::node::{IndexConfig, Node, open_index, open_index_with_events, scratch_dir},
  anyhow::Result,
  bitcoin::{Block, Network},
  ord::{
    Index,
    index::event::Event,
    verif::{self, Dump},
  },
  std::sync::{Arc, Mutex},
};

pub struct Run {
  pub node: Node,
  pub dir: tempfile::TempDir,
  pub config: IndexConfig,
  pub index: Option<Index>,
  pub events: Option<Arc<Mutex<Vec<Event>>>>,
  drain: Option<std::thread::JoinHandle<()>>,
  pub updates: u32,
  pub reopens: u32,
}

impl Run {
  pub fn new(network: Network, config: &IndexConfig) -> Result<Self> {
    let node = Node::new(network);
    let dir = scratch_dir();
    let index = open_index(&node, dir.path(), config)?;
    Ok(Self {
      node,
      dir,
      config: config.clone(),
      index: Some(index),
      events: None,
      drain: None,
      updates: 0,
      reopens: 0,
    })
  }

  /// Like `new`, with an event receiver drained into `self.events`.
  pub fn with_events(network: Network, config: &IndexConfig) -> Result<Self> {
    let node = Node::new(network);
    let dir = scratch_dir();
    let (sender, mut receiver) = tokio::sync::mpsc::channel::<Event>(1 << 16);
    let events = Arc::new(Mutex::new(Vec::new()));
    let sink = events.clone();
    let drain = std::thread::spawn(move || {
      while let Some(event) = receiver.blocking_recv() {
        sink.lock().unwrap().push(event);
      }
    });
    let index = open_index_with_events(&node, dir.path(), config, sender)?;
    Ok(Self {
      node,
      dir,
      config: config.clone(),
      index: Some(index),
      events: Some(events),
      drain: Some(drain),
      updates: 0,
      reopens: 0,
    })
  }

  pub fn index(&self) -> &Index {
    self.index.as_ref().expect("index open")
  }

  pub fn set_chain(&self, blocks: &[Block]) {
    self.node.set_chain(blocks);
  }

  pub fn update(&mut self) -> Result<()> {
    self.updates += 1;
    self.index().update()
  }

  /// Drops the index and opens it again from the same directory.
  pub fn reopen(&mut self) -> Result<()> {
    assert!(self.events.is_none(), "reopen with events not supported");
    self.index = None;
    self.index = Some(open_index(&self.node, self.dir.path(), &self.config)?);
    self.reopens += 1;
    Ok(())
  }

  pub fn dump(&self) -> Result<Dump> {
    verif::dump(self.index())
  }

  /// Closes the index (ending the event stream) and returns the events.
  pub fn finish_events(&mut self) -> Vec<Event> {
    self.index = None;
    if let Some(handle) = self.drain.take() {
      let _ = handle.join();
    }
    self
      .events
      .as_ref()
      .map(|e| e.lock().unwrap().clone())
      .unwrap_or_default()
  }
}

/// Index a whole chain in one go with the given configuration.
pub fn index_chain(network: Network, config: &IndexConfig, blocks: &[Block]) -> Result<Run> {
  let mut run = Run::new(network, config)?;
  run.set_chain(blocks);
  run.update()?;
  Ok(run)
}

// ------------------------------------------------------------- statistics

pub const STAT_SCHEMA: u64 = 0;
pub const STAT_BLESSED: u64 = 1;
pub const STAT_COMMITS: u64 = 2;
pub const STAT_CURSED: u64 = 3;
pub const STAT_INITIAL_SYNC_TIME: u64 = 9;
pub const STAT_LOST_SATS: u64 = 10;
pub const STAT_OUTPUTS_TRAVERSED: u64 = 11;
pub const STAT_RESERVED_RUNES: u64 = 12;
pub const STAT_RUNES: u64 = 13;
pub const STAT_SAT_RANGES: u64 = 14;
pub const STAT_UNBOUND: u64 = 16;
pub const STAT_LAST_SAVEPOINT_HEIGHT: u64 = 17;

pub fn statistic(dump: &Dump, key: u64) -> u64 {
  dump
    .statistics
    .iter()
    .find(|(k, _)| *k == key)
    .map(|(_, v)| *v)
    .unwrap_or(0)
}

/// The dump with timing and commit bookkeeping removed: what must be equal
/// between two indexes of the same chain (C12, C13, C14).
pub fn masked(dump: &Dump) -> Dump {
  let mut d = dump.clone();
  d.statistics.retain(|(k, _)| {
    ![
      STAT_COMMITS,
      STAT_INITIAL_SYNC_TIME,
      STAT_LAST_SAVEPOINT_HEIGHT,
    ]
    .contains(k)
  });
  d.write_transactions.clear();
  d.savepoints.clear();
  d
}

/// First difference between two dumps, table by table (for messages).
pub fn diff(a: &Dump, b: &Dump) -> Option<String> {
  macro_rules! table {
    ($name:ident) => {
      if a.$name != b.$name {
        let first = a
          .$name
          .iter()
          .zip(b.$name.iter())
          .position(|(x, y)| x != y)
          .unwrap_or(a.$name.len().min(b.$name.len()));
        return Some(format!(
          "table {} differs at row {first} ({} vs {} rows): {:?} vs {:?}",
          stringify!($name),
          a.$name.len(),
          b.$name.len(),
          a.$name.get(first),
          b.$name.get(first)
        ));
      }
    };
  }
  table!(headers);
  table!(utxos);
  table!(statistics);
  table!(sat_to_satpoint);
  table!(sat_to_sequence_number);
  table!(script_to_outpoint);
  table!(entries);
  table!(sequence_number_to_satpoint);
  table!(id_to_sequence_number);
  table!(number_to_sequence_number);
  table!(height_to_last_sequence_number);
  table!(children);
  table!(collection_to_latest_child);
  table!(latest_child_to_collection);
  table!(gallery);
  table!(home_inscriptions);
  table!(rune_entries);
  table!(rune_balances);
  table!(rune_to_id);
  table!(sequence_number_to_rune_id);
  table!(txid_to_rune);
  table!(txid_to_transaction);
  table!(offers);
  table!(write_transactions);
  table!(savepoints);
  None
}
