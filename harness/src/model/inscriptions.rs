//! RefInscriptions: inscriptions are attached to *sats* (not to offsets) and
//! follow them through RefSats. Written from docs/src/inscriptions*.md and
//! the property statements; envelope extraction is ord's own parser
//! (trusted, checked separately by C27).

use {
  super::{
    is_op_return,
    sats::{Range, RefSats},
  },
  bitcoin::{Block, OutPoint, Transaction, Txid},
  ord::{InscriptionId, ParsedEnvelope},
  std::collections::{BTreeMap, BTreeSet},
};

pub type Id = (Txid, u32);

#[derive(Clone, Debug)]
pub struct RefInscription {
  pub id: Id,
  pub height: u32,
  pub tx_position: usize,
  pub input: u32,
  pub envelope_offset: u32,
  pub unbound: bool,
  pub sat: Option<u64>,
  /// its sat landed in an OP_RETURN output at some point
  pub burned: bool,
  /// left its reveal transaction through the fee
  pub fee_spent_at_reveal: bool,
  pub named_parents: Vec<Id>,
  /// inscriptions spent or revealed by the reveal transaction
  pub potential_parents: BTreeSet<Id>,
  pub has_pointer_field: bool,
  pub pointer_effective: bool,
  pub pushnum: bool,
  pub stutter: bool,
  pub duplicate_field: bool,
  pub incomplete_field: bool,
  pub unrecognized_even_field: bool,
  /// bound inscriptions already on its sat when it was created (ids)
  pub sat_occupants_before: Vec<Id>,
  /// index of the input whose sats contain the offset the inscription was
  /// made at (differs from `input` only through an effective pointer)
  pub target_input: Option<usize>,
  /// of those, the ones from earlier transactions
  pub occupied_by_earlier_tx: bool,
  pub input_value: u64,
  pub moves: u32,
  pub hidden: bool,
  pub delegate: Option<Id>,
}

#[derive(Clone, Debug, Default)]
pub struct RefInscriptions {
  pub sats: RefSats,
  pub list: Vec<RefInscription>,
  pub by_id: BTreeMap<Id, usize>,
  /// bound inscriptions per sat, in creation (processing) order
  pub by_sat: BTreeMap<u64, Vec<usize>>,
  pub first_inscription_height: u32,
  /// per transaction: ids it moved (sat was in its inputs)
  pub moved_by: BTreeMap<Txid, Vec<Id>>,
}

fn sat_at(ranges: &[Range], offset: u64) -> Option<u64> {
  RefSats::sat_at(ranges, offset)
}

fn contains(ranges: &[Range], sat: u64) -> bool {
  ranges.iter().any(|(a, b)| sat >= *a && sat < *b)
}

impl RefInscriptions {
  pub fn new(first_inscription_height: u32) -> Self {
    Self {
      first_inscription_height,
      ..Default::default()
    }
  }

  pub fn height(&self) -> u64 {
    self.sats.height
  }

  fn id_of(id: InscriptionId) -> Id {
    (id.txid, id.index)
  }

  /// Bound inscriptions whose sat lies in `ranges`.
  fn inscriptions_in(&self, ranges: &[Range]) -> Vec<usize> {
    let mut out = Vec::new();
    for (sat, list) in &self.by_sat {
      if contains(ranges, *sat) {
        out.extend(list.iter().copied());
      }
    }
    out
  }

  fn note_landing(&mut self, moved: &[usize], tx: &Transaction) {
    // where did the sats of the moved inscriptions end up?
    let txid = tx.compute_txid();
    for &i in moved {
      let Some(sat) = self.list[i].sat else { continue };
      for (vout, output) in tx.output.iter().enumerate() {
        let op = OutPoint {
          txid,
          vout: vout as u32,
        };
        if let Some(ranges) = self.sats.utxo.get(&op)
          && contains(ranges, sat)
        {
          if is_op_return(output.script_pubkey.as_bytes()) {
            self.list[i].burned = true;
          }
          break;
        }
      }
    }
  }

  pub fn apply_block(&mut self, block: &Block) {
    let height = self.sats.height as u32;
    let active = height >= self.first_inscription_height;
    let mut coinbase_inputs: Vec<Range> = self.sats.subsidy_range();
    let mut fee_flotsam: Vec<usize> = Vec::new();

    for (position, tx) in block.txdata.iter().enumerate().skip(1) {
      let txid = tx.compute_txid();
      let per_input = self.sats.take_inputs(tx);
      let stream: Vec<Range> = per_input.concat();
      let total_output: u64 = tx.output.iter().map(|o| o.value.to_sat()).sum();

      // old inscriptions riding on the inputs
      let moved = self.inscriptions_in(&stream);
      for &i in &moved {
        self.list[i].moves += 1;
      }
      let moved_ids: Vec<Id> = moved.iter().map(|i| self.list[*i].id).collect();
      self.moved_by.insert(txid, moved_ids.clone());

      let mut new_indices = Vec::new();
      if active {
        let envelopes = ParsedEnvelope::from_transaction(tx);
        let mut potential: BTreeSet<Id> = moved_ids.iter().copied().collect();
        for k in 0..envelopes.len() {
          potential.insert((txid, k as u32));
        }
        let mut input_start = Vec::new();
        let mut acc = 0u64;
        for ranges in &per_input {
          input_start.push(acc);
          acc += super::sats::total(ranges);
        }
        for (k, envelope) in envelopes.iter().enumerate() {
          let input = envelope.input as usize;
          let input_value = super::sats::total(&per_input[input]);
          let payload = &envelope.payload;
          let unbound = input_value == 0 || payload.unrecognized_even_field;
          let pointer = payload.pointer();
          let pointer_effective = pointer.is_some_and(|p| p < total_output);
          let offset = if pointer_effective {
            pointer.unwrap()
          } else {
            input_start[input]
          };
          let sat = if unbound { None } else { sat_at(&stream, offset) };
          let target_input = (0..per_input.len())
            .rev()
            .find(|i| input_start[*i] <= offset && super::sats::total(&per_input[*i]) > 0 && offset < input_start[*i] + super::sats::total(&per_input[*i]));
          let occupants: Vec<Id> = sat
            .and_then(|s| self.by_sat.get(&s))
            .map(|list| list.iter().map(|i| self.list[*i].id).collect())
            .unwrap_or_default();
          let occupied_by_earlier_tx = occupants.iter().any(|(t, _)| *t != txid);
          let index = self.list.len();
          self.list.push(RefInscription {
            id: (txid, k as u32),
            height,
            tx_position: position,
            input: envelope.input,
            envelope_offset: envelope.offset,
            unbound,
            sat,
            burned: false,
            fee_spent_at_reveal: false,
            named_parents: payload.parents().into_iter().map(Self::id_of).collect(),
            potential_parents: potential.clone(),
            has_pointer_field: payload.pointer.is_some(),
            pointer_effective,
            pushnum: envelope.pushnum,
            stutter: envelope.stutter,
            duplicate_field: payload.duplicate_field,
            incomplete_field: payload.incomplete_field,
            unrecognized_even_field: payload.unrecognized_even_field,
            sat_occupants_before: occupants,
            target_input,
            occupied_by_earlier_tx,
            input_value,
            moves: 0,
            hidden: payload.hidden(),
            delegate: payload.delegate().map(Self::id_of),
          });
          self.by_id.insert((txid, k as u32), index);
          if let Some(sat) = sat {
            self.by_sat.entry(sat).or_default().push(index);
          }
          new_indices.push(index);
        }
      }

      let fee = self.sats.apply_tx(tx, stream);
      let mut riders = moved.clone();
      riders.extend(new_indices.iter().copied());
      self.note_landing(&riders, tx);
      for &i in &riders {
        if let Some(sat) = self.list[i].sat
          && contains(&fee, sat)
        {
          fee_flotsam.push(i);
          if new_indices.contains(&i) {
            self.list[i].fee_spent_at_reveal = true;
          }
        }
      }
      coinbase_inputs.extend(fee);
    }

    if let Some(coinbase) = block.txdata.first() {
      let leftover = self.sats.apply_tx(coinbase, coinbase_inputs);
      self.note_landing(&fee_flotsam.clone(), coinbase);
      self.sats.lost.extend(leftover);
    } else {
      self.sats.lost.extend(coinbase_inputs);
    }
    self.sats.height += 1;
  }

  /// Current location of every bound inscription: id -> (outpoint, offset).
  pub fn locations(&self) -> BTreeMap<Id, (OutPoint, u64)> {
    // one pass over all ranges
    let mut wanted: BTreeMap<u64, Vec<Id>> = BTreeMap::new();
    for inscription in &self.list {
      if let Some(sat) = inscription.sat {
        wanted.entry(sat).or_default().push(inscription.id);
      }
    }
    let mut out = BTreeMap::new();
    let mut scan = |outpoint: OutPoint, ranges: &[Range]| {
      let mut offset = 0u64;
      for (a, b) in ranges {
        for (sat, ids) in wanted.range(*a..*b) {
          for id in ids {
            out.insert(*id, (outpoint, offset + sat - a));
          }
        }
        offset += b - a;
      }
    };
    for (outpoint, ranges) in &self.sats.utxo {
      scan(*outpoint, ranges);
    }
    scan(OutPoint::null(), &self.sats.lost);
    out
  }
}
