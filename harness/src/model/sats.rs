//! RefSats: the ordinal assignment algorithm of bip.mediawiki
//! (`assign_ordinals`), on plain range lists.

use {
  super::{first_sat, subsidy},
  bitcoin::{Block, OutPoint, Transaction},
  std::collections::BTreeMap,
};

pub type Range = (u64, u64);

#[derive(Clone, Debug, Default, PartialEq)]
pub struct RefSats {
  /// every output ever created and not yet spent (including OP_RETURN and
  /// zero-value outputs), with its sat ranges in order
  pub utxo: BTreeMap<OutPoint, Vec<Range>>,
  /// sats not claimed by coinbases, in block order
  pub lost: Vec<Range>,
  /// sats that sat in outputs displaced by a duplicate txid
  pub destroyed: Vec<Range>,
  /// number of blocks applied (= height of the next block)
  pub height: u64,
}

pub fn coalesce(ranges: &[Range]) -> Vec<Range> {
  let mut out: Vec<Range> = Vec::new();
  for &(a, b) in ranges {
    if a == b {
      continue;
    }
    if let Some(last) = out.last_mut()
      && last.1 == a
    {
      last.1 = b;
      continue;
    }
    out.push((a, b));
  }
  out
}

pub fn total(ranges: &[Range]) -> u64 {
  ranges.iter().map(|(a, b)| b - a).sum()
}

/// Takes `n` sats from the front of `queue`.
fn take(queue: &mut std::collections::VecDeque<Range>, mut n: u64) -> Vec<Range> {
  let mut out = Vec::new();
  while n > 0 {
    let (a, b) = queue.pop_front().expect("inputs cover outputs");
    let len = b - a;
    if len <= n {
      out.push((a, b));
      n -= len;
    } else {
      out.push((a, a + n));
      queue.push_front((a + n, b));
      n = 0;
    }
  }
  out
}

impl RefSats {
  pub fn new() -> Self {
    Self::default()
  }

  fn create(&mut self, outpoint: OutPoint, ranges: Vec<Range>) {
    if let Some(old) = self.utxo.insert(outpoint, ranges) {
      // a transaction reusing a txid displaces the old outputs and their sats
      self.destroyed.extend(old);
    }
  }

  /// Applies one transaction's inputs→outputs FIFO; returns the fee ranges.
  pub fn apply_tx(&mut self, tx: &Transaction, input_ranges: Vec<Range>) -> Vec<Range> {
    let txid = tx.compute_txid();
    let mut queue: std::collections::VecDeque<Range> = input_ranges.into();
    for (vout, output) in tx.output.iter().enumerate() {
      let ranges = take(&mut queue, output.value.to_sat());
      self.create(
        OutPoint {
          txid,
          vout: vout as u32,
        },
        ranges,
      );
    }
    queue.into()
  }

  /// Removes the inputs of `tx` from the unspent set; returns their ranges
  /// per input.
  pub fn take_inputs(&mut self, tx: &Transaction) -> Vec<Vec<Range>> {
    tx.input
      .iter()
      .map(|input| {
        self
          .utxo
          .remove(&input.previous_output)
          .unwrap_or_else(|| panic!("model: input {} not unspent", input.previous_output))
      })
      .collect()
  }

  pub fn subsidy_range(&self) -> Vec<Range> {
    let s = subsidy(self.height);
    if s > 0 {
      let start = first_sat(self.height);
      vec![(start, start + s)]
    } else {
      Vec::new()
    }
  }

  pub fn apply_block(&mut self, block: &Block) {
    let mut coinbase_inputs: Vec<Range> = self.subsidy_range();
    for tx in block.txdata.iter().skip(1) {
      let inputs = self.take_inputs(tx).concat();
      let fee = self.apply_tx(tx, inputs);
      coinbase_inputs.extend(fee);
    }
    if let Some(coinbase) = block.txdata.first() {
      let leftover = self.apply_tx(coinbase, coinbase_inputs);
      self.lost.extend(leftover);
    } else {
      self.lost.extend(coinbase_inputs);
    }
    self.height += 1;
  }

  /// Where a sat currently is: (outpoint, offset); the null outpoint for
  /// lost sats; None if destroyed or not yet mined.
  pub fn locate(&self, sat: u64) -> Option<(OutPoint, u64)> {
    for (outpoint, ranges) in &self.utxo {
      let mut offset = 0;
      for (a, b) in ranges {
        if sat >= *a && sat < *b {
          return Some((*outpoint, offset + sat - a));
        }
        offset += b - a;
      }
    }
    let mut offset = 0;
    for (a, b) in &self.lost {
      if sat >= *a && sat < *b {
        return Some((OutPoint::null(), offset + sat - a));
      }
      offset += b - a;
    }
    None
  }

  pub fn lost_total(&self) -> u64 {
    total(&self.lost)
  }

  /// The sat at `offset` of the concatenated ranges.
  pub fn sat_at(ranges: &[Range], mut offset: u64) -> Option<u64> {
    for (a, b) in ranges {
      let len = b - a;
      if offset < len {
        return Some(a + offset);
      }
      offset -= len;
    }
    None
  }
}
