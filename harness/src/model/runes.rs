//! RefRunes: the runes protocol as described in
//! docs/src/runes/specification.md, over concrete blocks. Deciphering is
//! ord's own (`Runestone::decipher`, trusted here, checked by C25); the name
//! schedule is `Rune::minimum_at_height` (checked by C33).

use {
  super::is_op_return,
  bitcoin::{Block, Network, OutPoint, Transaction, Txid},
  ordinals::{Artifact, Height, Rune, RuneId, Runestone, Terms},
  std::collections::BTreeMap,
};

#[derive(Clone, Debug, PartialEq)]
pub struct RefRuneEntry {
  pub block: u64,
  pub burned: u128,
  pub divisibility: u8,
  pub etching: Txid,
  pub mints: u128,
  pub number: u64,
  pub premine: u128,
  pub rune: u128,
  pub spacers: u32,
  pub symbol: Option<char>,
  pub terms: Option<Terms>,
  pub timestamp: u64,
  pub turbo: bool,
}

#[derive(Clone, Debug, PartialEq)]
pub enum RefEvent {
  Etched { height: u32, txid: Txid, id: RuneId },
  Minted { height: u32, txid: Txid, id: RuneId, amount: u128 },
  Transferred { height: u32, txid: Txid, id: RuneId, amount: u128, outpoint: OutPoint },
  Burned { height: u32, txid: Txid, id: RuneId, amount: u128 },
}

#[derive(Clone, Debug)]
pub struct MintAttempt {
  pub height: u32,
  pub id: RuneId,
  pub accepted: bool,
  /// why it was refused: "unetched", "no-terms", "start", "end", "cap"
  pub reason: &'static str,
  pub in_cenotaph: bool,
}

#[derive(Clone, Debug)]
pub struct EtchAttempt {
  pub height: u32,
  pub tx: u32,
  pub accepted: bool,
  /// "ok", "reserved-name-assigned", "below-minimum", "reserved", "duplicate",
  /// "no-commitment", "cenotaph-unnamed"
  pub reason: &'static str,
  pub cenotaph: bool,
}

#[derive(Clone, Debug, Default)]
pub struct TxFacts {
  pub edicts: usize,
  pub split_edict: bool,
  pub zero_amount_edict: bool,
  pub same_rune_twice: bool,
  pub burned_something: bool,
  pub cenotaph: bool,
  pub input_runes: usize,
}

#[derive(Clone, Debug, Default)]
pub struct RefRunes {
  pub network: Option<Network>,
  pub height: u32,
  pub first_rune_height: u32,
  pub entries: BTreeMap<RuneId, RefRuneEntry>,
  pub rune_to_id: BTreeMap<u128, RuneId>,
  pub balances: BTreeMap<OutPoint, BTreeMap<RuneId, u128>>,
  pub runes: u64,
  pub reserved: u64,
  /// every transaction seen: height and output scripts (for commitments)
  pub txs: BTreeMap<Txid, (u32, Vec<Vec<u8>>)>,
  pub events: Vec<RefEvent>,
  pub mint_attempts: Vec<MintAttempt>,
  pub etch_attempts: Vec<EtchAttempt>,
  pub tx_facts: Vec<TxFacts>,
  pub txid_to_rune: BTreeMap<Txid, u128>,
}

pub fn mintable(entry: &RefRuneEntry, height: u64) -> Result<u128, &'static str> {
  let Some(terms) = entry.terms else {
    return Err("no-terms");
  };
  let relative_start = terms.offset.0.map(|o| entry.block.saturating_add(o));
  let relative_end = terms.offset.1.map(|o| entry.block.saturating_add(o));
  let start = match (relative_start, terms.height.0) {
    (Some(r), Some(a)) => Some(r.max(a)),
    (r, a) => r.or(a),
  };
  let end = match (relative_end, terms.height.1) {
    (Some(r), Some(a)) => Some(r.min(a)),
    (r, a) => r.or(a),
  };
  if let Some(start) = start
    && height < start
  {
    return Err("start");
  }
  if let Some(end) = end
    && height >= end
  {
    return Err("end");
  }
  if entry.mints >= terms.cap.unwrap_or(0) {
    return Err("cap");
  }
  Ok(terms.amount.unwrap_or(0))
}

impl RefRunes {
  pub fn new(network: Network, first_rune_height: u32) -> Self {
    Self {
      network: Some(network),
      first_rune_height,
      ..Default::default()
    }
  }

  fn commits(&self, tx: &Transaction, rune: u128, height: u32) -> bool {
    let commitment = Rune(rune).commitment();
    for input in &tx.input {
      #[allow(deprecated)]
      let Some(tapscript) = input.witness.tapscript() else {
        continue;
      };
      for instruction in tapscript.instructions() {
        let Ok(instruction) = instruction else {
          break;
        };
        let Some(push) = instruction.push_bytes() else {
          continue;
        };
        if push.as_bytes() != commitment {
          continue;
        }
        let Some((commit_height, scripts)) = self.txs.get(&input.previous_output.txid) else {
          continue;
        };
        let Some(script) = scripts.get(input.previous_output.vout as usize) else {
          continue;
        };
        let p2tr = script.len() == 34 && script[0] == 0x51 && script[1] == 0x20;
        if !p2tr {
          continue;
        }
        // "at least six confirmations", the etching block counting as one
        if height - commit_height + 1 >= 6 {
          return true;
        }
      }
    }
    false
  }

  pub fn apply_block(&mut self, block: &Block) {
    let height = self.height;
    let time = u64::from(block.header.time);
    let active = height >= self.first_rune_height;
    let mut block_burned: BTreeMap<RuneId, u128> = BTreeMap::new();
    for (i, tx) in block.txdata.iter().enumerate() {
      let txid = tx.compute_txid();
      if active {
        self.apply_tx(tx, txid, i as u32, height, time, &mut block_burned);
      }
      self.txs.insert(
        txid,
        (
          height,
          tx.output.iter().map(|o| o.script_pubkey.to_bytes()).collect(),
        ),
      );
    }
    for (id, amount) in block_burned {
      let entry = self.entries.get_mut(&id).expect("burned rune exists");
      entry.burned = entry.burned.checked_add(amount).expect("burned overflow");
    }
    self.height += 1;
  }

  fn apply_tx(
    &mut self,
    tx: &Transaction,
    txid: Txid,
    tx_index: u32,
    height: u32,
    time: u64,
    block_burned: &mut BTreeMap<RuneId, u128>,
  ) {
    let artifact = Runestone::decipher(tx);
    let mut facts = TxFacts::default();

    // input runes become unallocated
    let mut unallocated: BTreeMap<RuneId, u128> = BTreeMap::new();
    for input in &tx.input {
      if let Some(balances) = self.balances.remove(&input.previous_output) {
        for (id, amount) in balances {
          *unallocated.entry(id).or_default() += amount;
        }
      }
    }
    facts.input_runes = unallocated.len();

    let mut allocated: Vec<BTreeMap<RuneId, u128>> = vec![BTreeMap::new(); tx.output.len()];
    let is_cenotaph = matches!(artifact, Some(Artifact::Cenotaph(_)));
    facts.cenotaph = is_cenotaph;

    if let Some(artifact) = &artifact {
      // mint
      if let Some(id) = artifact.mint() {
        let attempt = match self.entries.get(&id) {
          None => Err("unetched"),
          Some(entry) => mintable(entry, u64::from(height)),
        };
        match attempt {
          Ok(amount) => {
            self.entries.get_mut(&id).unwrap().mints += 1;
            *unallocated.entry(id).or_default() += amount;
            self.events.push(RefEvent::Minted {
              height,
              txid,
              id,
              amount,
            });
            self.mint_attempts.push(MintAttempt {
              height,
              id,
              accepted: true,
              reason: "ok",
              in_cenotaph: is_cenotaph,
            });
          }
          Err(reason) => self.mint_attempts.push(MintAttempt {
            height,
            id,
            accepted: false,
            reason,
            in_cenotaph: is_cenotaph,
          }),
        }
      }

      // etching
      let named: Option<Option<Rune>> = match artifact {
        Artifact::Runestone(r) => r.etching.map(|e| e.rune),
        Artifact::Cenotaph(c) => c.etching.map(Some),
      };
      let mut etched: Option<(RuneId, u128)> = None;
      if let Some(name) = named {
        let id = RuneId {
          block: u64::from(height),
          tx: tx_index,
        };
        match name {
          Some(rune) => {
            let minimum = Rune::minimum_at_height(self.network.unwrap(), Height(height));
            let reason = if rune < minimum {
              "below-minimum"
            } else if rune.is_reserved() {
              "reserved"
            } else if self.rune_to_id.contains_key(&rune.0) {
              "duplicate"
            } else if !self.commits(tx, rune.0, height) {
              "no-commitment"
            } else {
              "ok"
            };
            if reason == "ok" {
              etched = Some((id, rune.0));
            }
            self.etch_attempts.push(EtchAttempt {
              height,
              tx: tx_index,
              accepted: reason == "ok",
              reason,
              cenotaph: is_cenotaph,
            });
          }
          None => {
            // only reachable for runestones (a cenotaph keeps just the name)
            self.reserved += 1;
            let rune = Rune::RESERVED + ((u128::from(height) << 32) | u128::from(tx_index));
            etched = Some((id, rune));
            self.etch_attempts.push(EtchAttempt {
              height,
              tx: tx_index,
              accepted: true,
              reason: "reserved-name-assigned",
              cenotaph: false,
            });
          }
        }
      } else if let Artifact::Cenotaph(_) = artifact {
        // an unnamed etching in a cenotaph is not even visible: nothing
      }

      if let Artifact::Runestone(runestone) = artifact {
        if let Some((id, _)) = etched {
          *unallocated.entry(id).or_default() += runestone.etching.unwrap().premine.unwrap_or(0);
        }
        facts.edicts = runestone.edicts.len();
        let mut seen = std::collections::BTreeSet::new();
        for edict in &runestone.edicts {
          if !seen.insert(edict.id) {
            facts.same_rune_twice = true;
          }
          if edict.amount == 0 {
            facts.zero_amount_edict = true;
          }
          let output = edict.output as usize;
          if output == tx.output.len() {
            facts.split_edict = true;
          }
          // id 0:0 = the rune etched here
          let id = if edict.id == (RuneId { block: 0, tx: 0 }) {
            match etched {
              Some((id, _)) => id,
              None => continue,
            }
          } else {
            edict.id
          };
          let Some(balance) = unallocated.get_mut(&id) else {
            continue;
          };
          let mut give = |balance: &mut u128, amount: u128, output: usize| {
            if amount > 0 {
              *balance -= amount;
              *allocated[output].entry(id).or_default() += amount;
            }
          };
          if output == tx.output.len() {
            let destinations: Vec<usize> = tx
              .output
              .iter()
              .enumerate()
              .filter(|(_, o)| !is_op_return(o.script_pubkey.as_bytes()))
              .map(|(i, _)| i)
              .collect();
            if destinations.is_empty() {
              continue;
            }
            if edict.amount == 0 {
              let n = destinations.len() as u128;
              let share = *balance / n;
              let remainder = (*balance % n) as usize;
              for (k, destination) in destinations.iter().enumerate() {
                give(balance, if k < remainder { share + 1 } else { share }, *destination);
              }
            } else {
              for destination in destinations {
                let amount = edict.amount.min(*balance);
                give(balance, amount, destination);
              }
            }
          } else {
            let amount = if edict.amount == 0 {
              *balance
            } else {
              edict.amount.min(*balance)
            };
            give(balance, amount, output);
          }
        }
      }

      if let Some((id, rune)) = etched {
        let number = self.runes;
        self.runes += 1;
        self.rune_to_id.insert(rune, id);
        self.txid_to_rune.insert(txid, rune);
        let entry = match artifact {
          Artifact::Cenotaph(_) => RefRuneEntry {
            block: id.block,
            burned: 0,
            divisibility: 0,
            etching: txid,
            mints: 0,
            number,
            premine: 0,
            rune,
            spacers: 0,
            symbol: None,
            terms: None,
            timestamp: time,
            turbo: false,
          },
          Artifact::Runestone(r) => {
            let e = r.etching.unwrap();
            RefRuneEntry {
              block: id.block,
              burned: 0,
              divisibility: e.divisibility.unwrap_or(0),
              etching: txid,
              mints: 0,
              number,
              premine: e.premine.unwrap_or(0),
              rune,
              spacers: e.spacers.unwrap_or(0),
              symbol: e.symbol,
              terms: e.terms,
              timestamp: time,
              turbo: e.turbo,
            }
          }
        };
        self.entries.insert(id, entry);
        self.events.push(RefEvent::Etched { height, txid, id });
      }
    }

    // leftovers
    let mut burned: BTreeMap<RuneId, u128> = BTreeMap::new();
    if is_cenotaph {
      for (id, amount) in unallocated {
        *burned.entry(id).or_default() += amount;
      }
    } else {
      let pointer = match &artifact {
        Some(Artifact::Runestone(r)) => r.pointer.map(|p| p as usize),
        _ => None,
      };
      let default = pointer.or_else(|| {
        tx.output
          .iter()
          .position(|o| !is_op_return(o.script_pubkey.as_bytes()))
      });
      match default {
        Some(vout) => {
          for (id, amount) in unallocated {
            if amount > 0 {
              *allocated[vout].entry(id).or_default() += amount;
            }
          }
        }
        None => {
          for (id, amount) in unallocated {
            if amount > 0 {
              *burned.entry(id).or_default() += amount;
            }
          }
        }
      }
    }

    for (vout, balances) in allocated.into_iter().enumerate() {
      if balances.is_empty() {
        continue;
      }
      if is_op_return(tx.output[vout].script_pubkey.as_bytes()) {
        for (id, amount) in balances {
          *burned.entry(id).or_default() += amount;
        }
        continue;
      }
      let outpoint = OutPoint {
        txid,
        vout: vout as u32,
      };
      for (id, amount) in &balances {
        self.events.push(RefEvent::Transferred {
          height,
          txid,
          id: *id,
          amount: *amount,
          outpoint,
        });
      }
      self.balances.insert(outpoint, balances);
    }
    for (id, amount) in burned {
      // zero burns are still reported by ord when they come from a cenotaph
      *block_burned.entry(id).or_default() += amount;
      self.events.push(RefEvent::Burned {
        height,
        txid,
        id,
        amount,
      });
      if amount > 0 {
        facts.burned_something = true;
      }
    }
    self.tx_facts.push(facts);
  }
}
