//! Reference models written from the documents ord claims to implement
//! (bip.mediawiki, docs/src/inscriptions*, docs/src/runes/specification.md),
//! not from the implementation. They consume concrete blocks.

pub mod inscriptions;
pub mod runes;
pub mod sats;

pub const HALVING: u64 = 210_000;

pub fn subsidy(height: u64) -> u64 {
  let epoch = height / HALVING;
  if epoch < 33 { 5_000_000_000u64 >> epoch } else { 0 }
}

/// First sat of the block at `height` = sum of all earlier subsidies.
pub fn first_sat(height: u64) -> u64 {
  let mut total = 0u64;
  let mut epoch = 0u64;
  while epoch < 33 && epoch * HALVING < height {
    let blocks = (height - epoch * HALVING).min(HALVING);
    total += blocks * (5_000_000_000u64 >> epoch);
    epoch += 1;
  }
  total
}

pub fn is_op_return(script: &[u8]) -> bool {
  script.first() == Some(&0x6a)
}
