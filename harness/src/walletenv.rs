//! A wallet test bed: the mock node, a live in-process `ord server` (synced
//! explicitly after every mined block) and the real `ord` command line run
//! as a subprocess (`ord_cli`, the repository's `ord::main`).
//!
//! The wallet's holdings are made by harness-built transactions paying to
//! addresses of the mock node's wallet: inscribed outputs, runic outputs,
//! outputs that are both, and cardinal ones.

use {
  crate::{
    model::subsidy,
    node::{IndexConfig, coinbase_input, make_block},
    server::{ServerOptions, TestServer, p2tr},
    util::U128,
  },
  anyhow::{Context, Result, anyhow, bail},
  bitcoin::{
    Address, Amount, Network, OutPoint, ScriptBuf, Sequence, Transaction, TxIn, TxOut, Txid,
    Witness, absolute::LockTime, transaction::Version,
  },
  ord::{Inscription, InscriptionId},
  ordinals::{Edict, Etching, Rune, RuneId, Runestone, SpacedRune, Terms},
  serde::{Deserialize, Serialize},
  std::{
    collections::{BTreeMap, BTreeSet, VecDeque},
    io::{Read, Write},
    path::PathBuf,
    process::{Child, Command, Stdio},
    time::{Duration, Instant},
  },
};

pub const NETWORK: Network = Network::Regtest;

/// Script of the outputs the harness itself spends from.
pub fn fund_script() -> ScriptBuf {
  p2tr(1)
}

pub fn foreign_address(k: u8) -> Address {
  Address::from_script(&p2tr(k), NETWORK).unwrap()
}

pub struct CliOutput {
  pub code: Option<i32>,
  pub stdout: String,
  pub stderr: String,
}

impl CliOutput {
  pub fn ok(&self) -> bool {
    self.code == Some(0)
  }

  pub fn json<T: serde::de::DeserializeOwned>(&self) -> Result<T> {
    serde_json::from_str(&self.stdout)
      .with_context(|| format!("stdout: {} stderr: {}", self.stdout, self.stderr))
  }
}

#[derive(Clone, Debug)]
pub struct Fund {
  pub outpoint: OutPoint,
  pub value: u64,
  pub height: u32,
}

pub struct WalletEnv {
  pub server: TestServer,
  pub cli_dir: tempfile::TempDir,
  pub funds: VecDeque<Fund>,
  pub cli: PathBuf,
  /// every non-coinbase transaction mined so far, in order
  pub mined: Vec<Transaction>,
  nonce: u32,
}

fn cli_path() -> PathBuf {
  let exe = std::env::current_exe().unwrap();
  exe.parent().unwrap().join("ord_cli")
}

impl WalletEnv {
  pub fn new(config: &IndexConfig) -> Result<Self> {
    let server = TestServer::start(
      NETWORK,
      config,
      &[],
      &ServerOptions {
        csp_origin: None,
        decompress: false,
        hidden: Vec::new(),
        disable_json_api: false,
      },
    )?;
    let env = Self {
      server,
      cli_dir: crate::node::scratch_dir(),
      funds: VecDeque::new(),
      cli: cli_path(),
      mined: Vec::new(),
      nonce: 0,
    };
    let created = env.wallet(&["create"], &[])?;
    if !created.ok() {
      bail!("wallet create failed: {}", created.stderr);
    }
    Ok(env)
  }

  pub fn height(&self) -> u32 {
    self.server.node.height()
  }

  pub fn sync(&self) -> Result<()> {
    self.server.index.update()?;
    Ok(())
  }

  /// Mines `n` blocks (the first takes the mempool); the coinbases pay the
  /// harness, never the wallet. The index is synced afterwards.
  pub fn mine(&mut self, n: usize) -> Result<()> {
    for _ in 0..n {
      let (prev, height, txs) = {
        let mut state = self.server.node.handle.state();
        let prev = *state.hashes.last().unwrap();
        let height = u32::try_from(state.hashes.len()).unwrap();
        let txs: Vec<Transaction> = state.mempool.drain(..).collect();
        (prev, height, txs)
      };
      self.nonce += 1;
      let value = subsidy(u64::from(height)).min(50 * 100_000_000);
      let coinbase = Transaction {
        version: Version(2),
        lock_time: LockTime::ZERO,
        input: vec![coinbase_input(height, self.nonce)],
        output: vec![TxOut {
          value: Amount::from_sat(value),
          script_pubkey: fund_script(),
        }],
      };
      self.funds.push_back(Fund {
        outpoint: OutPoint {
          txid: coinbase.compute_txid(),
          vout: 0,
        },
        value,
        height,
      });
      let mut txdata = vec![coinbase];
      self.mined.extend(txs.iter().cloned());
      txdata.extend(txs);
      let block = make_block(prev, height, self.nonce, txdata);
      self.server.node.append_block(&block);
    }
    self.sync()
  }

  /// A spendable harness output with at least `confirmations`.
  pub fn take_fund(&mut self, confirmations: u32) -> Result<Fund> {
    let height = self.height();
    let position = self
      .funds
      .iter()
      .position(|fund| height + 1 - fund.height >= confirmations)
      .ok_or_else(|| anyhow!("no fund with {confirmations} confirmations"))?;
    Ok(self.funds.remove(position).unwrap())
  }

  pub fn wallet_address(&self) -> Address {
    self.server.node.handle.state().new_address(false)
  }

  pub fn is_wallet_script(&self, script: &ScriptBuf) -> bool {
    match Address::from_script(script, NETWORK) {
      Ok(address) => self.server.node.handle.state().is_wallet_address(&address),
      Err(_) => false,
    }
  }

  pub fn push_tx(&self, tx: Transaction) -> Txid {
    let txid = tx.compute_txid();
    self.server.node.handle.state().mempool.push(tx);
    txid
  }

  pub fn mempool(&self) -> Vec<Transaction> {
    self.server.node.handle.state().mempool.clone()
  }

  pub fn clear_locks(&self) {
    self.server.node.handle.state().locked.clear();
  }

  pub fn locked(&self) -> BTreeSet<OutPoint> {
    self.server.node.handle.state().locked.clone()
  }

  /// Unspent outputs paying a wallet address.
  pub fn wallet_utxos(&self) -> BTreeMap<OutPoint, TxOut> {
    let state = self.server.node.handle.state();
    let mut out = BTreeMap::new();
    for outpoint in state.utxos.keys() {
      let Some(tx) = state.transactions.get(&outpoint.txid) else {
        continue;
      };
      let tx_out = &tx.output[outpoint.vout as usize];
      if let Ok(address) = Address::from_script(&tx_out.script_pubkey, NETWORK) {
        if state.is_wallet_address(&address) {
          out.insert(*outpoint, tx_out.clone());
        }
      }
    }
    out
  }

  pub fn tx_out(&self, outpoint: &OutPoint) -> Option<TxOut> {
    let state = self.server.node.handle.state();
    state
      .transactions
      .get(&outpoint.txid)
      .and_then(|tx| tx.output.get(outpoint.vout as usize).cloned())
      .or_else(|| {
        state
          .mempool
          .iter()
          .find(|tx| tx.compute_txid() == outpoint.txid)
          .and_then(|tx| tx.output.get(outpoint.vout as usize).cloned())
      })
  }

  fn base_command(&self) -> Command {
    let mut command = if std::env::var_os("ORDVERIF_STRACE").is_some() {
      static N: std::sync::atomic::AtomicU64 = std::sync::atomic::AtomicU64::new(0);
      let n = N.fetch_add(1, std::sync::atomic::Ordering::SeqCst);
      let mut c = Command::new("strace");
      c.arg("-f").arg("-tt").arg("-T").arg("-o").arg(format!("/tmp/strace.{n}")).arg(&self.cli);
      c
    } else {
      Command::new(&self.cli)
    };
    command.env_clear();
    for (key, value) in std::env::vars_os() {
      if let Some(key_str) = key.to_str() {
        if key_str.starts_with("ORD_") || key_str == "RUST_LOG" {
          continue;
        }
      }
      command.env(key, value);
    }
    command.env("ORD_INTEGRATION_TEST", "1");
    // ord prints (and symbolises) a backtrace for every error otherwise
    command.env("RUST_BACKTRACE", "0");
    command
      .current_dir(self.cli_dir.path())
      .arg("--chain")
      .arg("regtest")
      .arg("--bitcoin-rpc-url")
      .arg(self.server.node.url())
      .arg("--cookie-file")
      .arg(self.server.node.cookie_file())
      .arg("--datadir")
      .arg(self.cli_dir.path())
      .stdin(Stdio::piped())
      .stdout(Stdio::piped())
      .stderr(Stdio::piped());
    command
  }

  pub fn write_file(&self, name: &str, contents: &[u8]) -> Result<()> {
    std::fs::write(self.cli_dir.path().join(name), contents)?;
    Ok(())
  }

  pub fn spawn_wallet(&self, args: &[&str], files: &[(&str, Vec<u8>)]) -> Result<Child> {
    for (name, contents) in files {
      self.write_file(name, contents)?;
    }
    let mut command = self.base_command();
    command
      .arg("wallet")
      .arg("--server-url")
      .arg(format!("http://127.0.0.1:{}", self.server.port));
    command.args(args);
    let mut child = command.spawn().context("spawning ord_cli")?;
    drop(child.stdin.take());
    Ok(child)
  }

  /// Runs `ord wallet <args>` to completion.
  pub fn wallet(&self, args: &[&str], files: &[(&str, Vec<u8>)]) -> Result<CliOutput> {
    let child = self.spawn_wallet(args, files)?;
    wait_child(child, Duration::from_secs(120))
  }
}

/// Waits for a child with piped output; kills it at the deadline.
pub fn wait_child(mut child: Child, limit: Duration) -> Result<CliOutput> {
  let mut stdout = child.stdout.take().unwrap();
  let mut stderr = child.stderr.take().unwrap();
  let out_thread = std::thread::spawn(move || {
    let mut s = Vec::new();
    let _ = stdout.read_to_end(&mut s);
    s
  });
  let err_thread = std::thread::spawn(move || {
    let mut s = Vec::new();
    let _ = stderr.read_to_end(&mut s);
    s
  });
  let start = Instant::now();
  let status = loop {
    if let Some(status) = child.try_wait()? {
      break status;
    }
    if start.elapsed() > limit {
      let _ = child.kill();
      let _ = child.wait();
      bail!("ord command did not finish within {limit:?}");
    }
    std::thread::sleep(Duration::from_millis(2));
  };
  let stdout = String::from_utf8_lossy(&out_thread.join().unwrap()).to_string();
  let stderr = String::from_utf8_lossy(&err_thread.join().unwrap()).to_string();
  Ok(CliOutput {
    code: status.code(),
    stdout,
    stderr,
  })
}

// ------------------------------------------------------------- inventories

#[derive(Clone, Debug, Serialize, Deserialize, PartialEq, Eq, Hash)]
pub struct RuneSpec {
  pub divisibility: u8,
  pub premine: U128,
  /// open mint terms: (amount per mint, cap)
  pub mint: Option<(U128, U128)>,
  pub spacers: u32,
}

#[derive(Clone, Debug, Serialize, Deserialize, PartialEq, Eq, Hash)]
pub struct WalletOutSpec {
  pub value: u64,
  pub inscriptions: u8,
  /// put later inscriptions on later sats of the output
  pub spread: bool,
  /// (rune index, amount); amounts are capped by what is left of the premine
  pub runes: Vec<(usize, U128)>,
}

#[derive(Clone, Debug, Serialize, Deserialize, PartialEq, Eq, Hash, Default)]
pub struct InventorySpec {
  pub runes: Vec<RuneSpec>,
  pub outputs: Vec<WalletOutSpec>,
  /// inscriptions held by somebody else: (output value, with runes of rune 0)
  pub foreign_inscriptions: Vec<u64>,
}

#[derive(Clone, Debug)]
pub struct RuneMeta {
  pub rune: Rune,
  pub spaced: SpacedRune,
  pub id: RuneId,
  pub divisibility: u8,
  pub mint: Option<(u128, u128)>,
  pub premine: u128,
}

#[derive(Clone, Debug, Default, PartialEq, Eq)]
pub struct OutState {
  pub value: u64,
  pub inscriptions: Vec<InscriptionId>,
  pub runes: BTreeMap<Rune, u128>,
}

impl OutState {
  pub fn cardinal(&self) -> bool {
    self.inscriptions.is_empty() && self.runes.is_empty()
  }
}

#[derive(Clone, Debug)]
pub struct Inventory {
  pub runes: Vec<RuneMeta>,
  /// what the fixture intended per wallet output
  pub expected: BTreeMap<OutPoint, OutState>,
  pub foreign_inscriptions: Vec<(InscriptionId, OutPoint, u64)>,
}

pub fn rune_base() -> u128 {
  "AAAAAAAAAAAAA".parse::<Rune>().unwrap().0
}

pub fn decimal_string(amount: u128, divisibility: u8) -> String {
  if divisibility == 0 {
    return amount.to_string();
  }
  let scale = 10u128.pow(u32::from(divisibility));
  let whole = amount / scale;
  let frac = amount % scale;
  if frac == 0 {
    whole.to_string()
  } else {
    let mut digits = format!("{frac:0width$}", width = usize::from(divisibility));
    while digits.ends_with('0') {
      digits.pop();
    }
    format!("{whole}.{digits}")
  }
}

fn spend(inputs: Vec<(OutPoint, Witness)>, output: Vec<TxOut>) -> Transaction {
  Transaction {
    version: Version(2),
    lock_time: LockTime::ZERO,
    input: inputs
      .into_iter()
      .map(|(previous_output, witness)| TxIn {
        previous_output,
        script_sig: ScriptBuf::new(),
        sequence: Sequence::MAX,
        witness,
      })
      .collect(),
    output,
  }
}

fn out(value: u64, script_pubkey: ScriptBuf) -> TxOut {
  TxOut {
    value: Amount::from_sat(value),
    script_pubkey,
  }
}

fn reveal_witness(inscriptions: &[Inscription]) -> Witness {
  let script = Inscription::append_batch_reveal_script(inscriptions, bitcoin::script::Builder::new());
  let mut witness = Witness::new();
  witness.push(script);
  witness.push([0xc0u8; 33]);
  witness
}

fn commitment_witness(rune: Rune) -> Witness {
  let mut builder = bitcoin::script::Builder::new();
  let commitment = rune.commitment();
  let push: &bitcoin::script::PushBytes = commitment.as_slice().try_into().unwrap();
  builder = builder.push_slice(push);
  let mut witness = Witness::new();
  witness.push(builder.into_script());
  witness.push([0xc0u8; 33]);
  witness
}

impl WalletEnv {
  /// Builds the wallet's holdings. `salt` separates the rune names of
  /// different cases.
  pub fn build_inventory(&mut self, spec: &InventorySpec, salt: u64) -> Result<Inventory> {
    const TREASURY: u8 = 2;
    const STAGING: u8 = 3;
    const SELLER: u8 = 4;
    const SINK: u8 = 5;

    self.mine(8)?;

    // ---- block A: etchings and other people's inscriptions
    let etch_height = self.height() + 1;
    let mut metas = Vec::new();
    let mut treasuries = Vec::new();
    for (k, rune_spec) in spec.runes.iter().enumerate() {
      let rune = Rune(rune_base() + u128::from(salt % 1_000_000) * 1000 + k as u128 * 7 + 1);
      let fund = self.take_fund(6)?;
      let etching = Etching {
        divisibility: Some(rune_spec.divisibility),
        premine: Some(rune_spec.premine.0),
        rune: Some(rune),
        spacers: Some(rune_spec.spacers),
        symbol: Some('$'),
        terms: rune_spec.mint.map(|(amount, cap)| Terms {
          amount: Some(amount.0),
          cap: Some(cap.0),
          height: (None, None),
          offset: (None, None),
        }),
        turbo: false,
      };
      let runestone = Runestone {
        etching: Some(etching),
        pointer: Some(0),
        ..Default::default()
      };
      let tx = spend(
        vec![(fund.outpoint, commitment_witness(rune))],
        vec![
          out(10_000, p2tr(TREASURY)),
          out(0, runestone.encipher()),
          out(fund.value - 10_000, fund_script()),
        ],
      );
      let txid = self.push_tx(tx);
      treasuries.push(OutPoint { txid, vout: 0 });
      self.funds.push_back(Fund {
        outpoint: OutPoint { txid, vout: 2 },
        value: fund.value - 10_000,
        height: etch_height,
      });
      metas.push(RuneMeta {
        rune,
        spaced: SpacedRune {
          rune,
          spacers: rune_spec.spacers,
        },
        id: RuneId {
          block: u64::from(etch_height),
          tx: u32::try_from(k + 1).unwrap(),
        },
        divisibility: rune_spec.divisibility,
        mint: rune_spec.mint.map(|(a, c)| (a.0, c.0)),
        premine: rune_spec.premine.0,
      });
    }
    let mut foreign = Vec::new();
    for (k, value) in spec.foreign_inscriptions.iter().enumerate() {
      let fund = self.take_fund(1)?;
      let inscription = Inscription {
        content_type: Some(b"text/plain".to_vec()),
        body: Some(format!("foreign {k}").into_bytes()),
        ..Default::default()
      };
      let tx = spend(
        vec![(fund.outpoint, reveal_witness(&[inscription]))],
        vec![out(*value, p2tr(SELLER)), out(fund.value - value, fund_script())],
      );
      let txid = self.push_tx(tx);
      self.funds.push_back(Fund {
        outpoint: OutPoint { txid, vout: 1 },
        value: fund.value - value,
        height: etch_height,
      });
      foreign.push((InscriptionId { txid, index: 0 }, OutPoint { txid, vout: 0 }, *value));
    }
    self.mine(1)?;

    // ---- block B: distribution
    let mut remaining: Vec<u128> = spec.runes.iter().map(|r| r.premine.0).collect();
    let mut inputs: Vec<(OutPoint, Witness)> = treasuries.iter().map(|o| (*o, Witness::new())).collect();
    let mut input_value = 10_000 * treasuries.len() as u64;
    let need: u64 = spec.outputs.iter().map(|o| o.value).sum::<u64>() + 10_000;
    while input_value < need + 10_000 {
      let fund = self.take_fund(1)?;
      input_value += fund.value;
      inputs.push((fund.outpoint, Witness::new()));
    }
    let mut outputs = Vec::new();
    let mut edicts = Vec::new();
    let mut intended: Vec<OutState> = Vec::new();
    let mut scripts = Vec::new();
    for (i, output) in spec.outputs.iter().enumerate() {
      let address = self.wallet_address();
      let script = if output.inscriptions > 0 {
        p2tr(STAGING)
      } else {
        address.script_pubkey()
      };
      scripts.push(address.script_pubkey());
      outputs.push(out(output.value, script));
      let mut state = OutState {
        value: output.value,
        ..Default::default()
      };
      for (rune_index, amount) in &output.runes {
        if metas.is_empty() {
          continue;
        }
        let r = rune_index % metas.len();
        let amount = amount.0.min(remaining[r]);
        if amount == 0 {
          continue;
        }
        remaining[r] -= amount;
        edicts.push(Edict {
          id: metas[r].id,
          amount,
          output: u32::try_from(i).unwrap(),
        });
        *state.runes.entry(metas[r].rune).or_default() += amount;
      }
      intended.push(state);
    }
    let sink_index = u32::try_from(outputs.len()).unwrap();
    outputs.push(out(10_000, p2tr(SINK)));
    let runestone = Runestone {
      edicts,
      pointer: Some(sink_index),
      ..Default::default()
    };
    let change = input_value - need;
    outputs.push(out(change, fund_script()));
    outputs.push(out(0, runestone.encipher()));
    let distribution = spend(inputs, outputs);
    let distribution_txid = self.push_tx(distribution);
    self.funds.push_back(Fund {
      outpoint: OutPoint {
        txid: distribution_txid,
        vout: sink_index + 1,
      },
      value: change,
      height: self.height() + 1,
    });
    self.mine(1)?;

    // ---- block C: reveals onto wallet addresses
    let mut expected = BTreeMap::new();
    for (i, output) in spec.outputs.iter().enumerate() {
      let staged = OutPoint {
        txid: distribution_txid,
        vout: u32::try_from(i).unwrap(),
      };
      if output.inscriptions == 0 {
        expected.insert(staged, intended[i].clone());
        continue;
      }
      let inscriptions: Vec<Inscription> = (0..output.inscriptions)
        .map(|n| Inscription {
          content_type: Some(b"text/plain".to_vec()),
          body: Some(format!("wallet {i} {n}").into_bytes()),
          pointer: if output.spread && n > 0 {
            Some(Inscription::pointer_value(
              (u64::from(n) * 300).min(output.value.saturating_sub(1)),
            ))
          } else {
            None
          },
          ..Default::default()
        })
        .collect();
      let tx = spend(
        vec![(staged, reveal_witness(&inscriptions))],
        vec![out(output.value, scripts[i].clone())],
      );
      let txid = self.push_tx(tx);
      let mut state = intended[i].clone();
      state.inscriptions = (0..u32::from(output.inscriptions))
        .map(|index| InscriptionId { txid, index })
        .collect();
      expected.insert(OutPoint { txid, vout: 0 }, state);
    }
    self.mine(1)?;

    let inventory = Inventory {
      runes: metas,
      expected,
      foreign_inscriptions: foreign,
    };

    // the fixture must be what it was meant to be
    let actual = self.snapshot()?;
    for (outpoint, want) in &inventory.expected {
      let got = actual
        .get(outpoint)
        .ok_or_else(|| anyhow!("fixture output {outpoint} not in wallet"))?;
      let mut want_sorted = want.clone();
      want_sorted.inscriptions.sort();
      let mut got_sorted = got.clone();
      got_sorted.inscriptions.sort();
      if want_sorted != got_sorted {
        bail!("fixture output {outpoint}: wanted {want:?}, index says {got:?}");
      }
    }
    if actual.len() != inventory.expected.len() {
      bail!("fixture has {} wallet outputs, wanted {}", actual.len(), inventory.expected.len());
    }
    Ok(inventory)
  }

  /// What ord's index says about an output.
  pub fn output_state(&self, outpoint: &OutPoint) -> Result<OutState> {
    let info: ord::api::Output = self.server.json(&format!("/output/{outpoint}"))?;
    Ok(OutState {
      value: info.value,
      inscriptions: info.inscriptions.unwrap_or_default(),
      runes: info
        .runes
        .unwrap_or_default()
        .into_iter()
        .map(|(spaced, pile)| (spaced.rune, pile.amount))
        .collect(),
    })
  }

  /// The index's view of every unspent wallet output.
  pub fn snapshot(&self) -> Result<BTreeMap<OutPoint, OutState>> {
    let mut out = BTreeMap::new();
    for outpoint in self.wallet_utxos().keys() {
      out.insert(*outpoint, self.output_state(outpoint)?);
    }
    Ok(out)
  }

  pub fn burned(&self, rune: &RuneMeta) -> Result<u128> {
    let info: ord::api::Rune = self.server.json(&format!("/rune/{}", rune.rune))?;
    Ok(info.entry.burned)
  }
}

pub fn write_all(child: &mut Child, bytes: &[u8]) {
  if let Some(stdin) = child.stdin.as_mut() {
    let _ = stdin.write_all(bytes);
  }
}
