#![no_main]
use libfuzzer_sys::fuzz_target;

fuzz_target!(|data: &[u8]| {
  ordverif::fuzz::fuzz_one("varint", data);
});
