#!/usr/bin/env bash
# usage: tools/run_all.sh <tier> <seed> [ids...]   -- runs checks one after another, prints a table
tier=${1:-quick}; seed=${2:-0}; shift 2 || true
ids=("$@")
if [ ${#ids[@]} -eq 0 ]; then
  ids=($(python3 -c "import json;print(' '.join(json.loads(l)['id'] for l in open('/verif/properties.jsonl')))"))
fi
cd /verif
for id in "${ids[@]}"; do
  s=$(date +%s)
  out=$(VERIF_SEED=$seed ./check $id $tier 2>&1)
  code=$?
  e=$(date +%s)
  line=$(echo "$out" | grep -E '^property=' | tail -1)
  echo "$id $tier seed=$seed exit=$code secs=$((e-s)) $line"
  echo "$out" | grep -E "^VIOLATION|^INCONCLUSIVE" | cut -c1-300 | sort | uniq -c | head -4
done
