NOT_YET = {}

claim("C26", "property-based testing (proptest): round trip + differential against a reference LEB128 decoder",
      "Generated u128 values and byte strings; encode/decode round trip and a reference decoder with exact arithmetic decide every case; 200k cases quick, 20M thorough.",
      "Trusted: the 40-line reference decoder in harness/src/props/pure_ordinals.rs.")
claim("C29", "exhaustive/sampled enumeration against closed-form oracle",
      "Every height (thorough: all 6,931,000; quick: all boundaries + 300k random) and boundary/random sats compared with closed forms derived from the subsidy schedule; rarity supply table recounted.",
      "Trusted: the subsidy schedule as written in bip.mediawiki.")
claim("C30", "round-trip testing over enumerated and generated sats",
      "print->parse identity for all five notations on first/last/random sat of every height (thorough) plus millions of random sats.",
      "None beyond Sat::from_str being the parser users reach.")
claim("C31", "grammar-directed property-based testing (proptest) against reference evaluators with big-integer arithmetic",
      "Generated strings around every notation's grammar with boundary numeric leaves, mutations and random strings, through nine public parsers; Ok(v) must be what an exact reference evaluator denotes; panics are violations.",
      "Reference evaluators in harness/src/props/text.rs; one-directional (acceptance only), as the property states.")
claim("C32", "property-based testing (proptest): independent bijective base-26 and print/parse round trip",
      "u128 values at every name-length step, boundaries and uniform; all spacer masks classes.",
      "Trusted: the reference base-26 implementation.")
claim("C33", "exhaustive enumeration of heights + property-based testing of names",
      "All heights of the schedule on five networks enumerated; unlock_height compared with a search over minimum_at_height for generated names.",
      "Monotonicity is itself checked exhaustively, so the binary search is sound.")
claim("C34", "property-based testing (proptest): round trip and differential against exact decimal arithmetic",
      "Pile display -> Decimal parse -> to_integer identity, and arbitrary decimal strings against exact big-integer evaluation.",
      "Divisibility domain 0..=38 as in the protocol.")
