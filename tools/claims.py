NOT_YET = {}

claim("C26", "property-based testing (proptest): round trip + differential against a reference LEB128 decoder; thorough tier adds a coverage-guided libFuzzer stage (target varint) with the same reference decoder",
      "Generated u128 values and byte strings; encode/decode round trip and a reference decoder with exact arithmetic decide every case; 200k cases quick, 20M thorough.",
      "Trusted: the 40-line reference decoder in harness/src/props/pure_ordinals.rs.")
claim("C29", "exhaustive/sampled enumeration against closed-form oracle",
      "Every height (thorough: all 6,931,000; quick: all boundaries + 300k random) and boundary/random sats compared with closed forms derived from the subsidy schedule; rarity supply table recounted.",
      "Trusted: the subsidy schedule as written in bip.mediawiki.")
claim("C30", "round-trip testing over enumerated and generated sats",
      "print->parse identity for all five notations on first/last/random sat of every height (thorough) plus millions of random sats.",
      "None beyond Sat::from_str being the parser users reach.")
claim("C31", "grammar-directed property-based testing (proptest) against reference evaluators with big-integer arithmetic; thorough tier adds a coverage-guided libFuzzer stage (target text) judged by the same reference evaluators",
      "Generated strings around every notation's grammar with boundary numeric leaves, mutations and random strings, through nine public parsers; Ok(v) must be what an exact reference evaluator denotes; panics are violations.",
      "Reference evaluators in harness/src/props/text.rs; one-directional (acceptance only), as the property states.")
claim("C32", "property-based testing (proptest): independent bijective base-26 and print/parse round trip",
      "u128 values at every name-length step, boundaries and uniform; all spacer masks classes.",
      "Trusted: the reference base-26 implementation.")
claim("C33", "exhaustive enumeration of heights + property-based testing of names",
      "All heights of the schedule on five networks enumerated; unlock_height compared with a search over minimum_at_height for generated names.",
      "Monotonicity is itself checked exhaustively, so the binary search is sound.")
claim("C34", "property-based testing (proptest): round trip and differential against exact decimal arithmetic",
      "Pile display -> Decimal parse -> to_integer identity, and arbitrary decimal strings against exact big-integer evaluation.",
      "Divisibility domain 0..=38 as in the protocol.")

claim("C20", "property-based testing (proptest) with an independent validity predicate over the built transaction",
      "Generated wallet states, satpoints, recipients, fee rates and targets; a panic is a violation, Err is accepted, every Ok transaction is validated clause by clause by a checker that shares no code with the builder.",
      "UTXO values >= 1 sat, P2TR change addresses and burn targets >= 1 sat (caller preconditions, see DESIGN.md C20); known findings listed in known-findings.txt are excluded by signature and counted.")
claim("C25", "property-based testing (proptest): round trip + differential against a reference decipherer written from the specification; thorough tier adds a coverage-guided libFuzzer stage (target runestone) with the same differential oracle",
      "Well-formed runestones round-trip through encipher/decipher; generated integer sequences, push layouts and damaged scripts are deciphered by ord and by an independent reference and must agree exactly, flaw precedence included.",
      "The reference decipherer (harness/src/props/runestone.rs) is trusted to implement docs/src/runes/specification.md.")
claim("C27", "property-based testing (proptest): round trip through reveal scripts + totality on generated witnesses; thorough tier adds a coverage-guided libFuzzer stage (target witness) on the totality part",
      "Inscriptions built with the public constructor and fields are written to reveal scripts and parsed back field by field; arbitrary witness stacks never panic.",
      "Field values are non-empty, as the property states.")
claim("C28", "property-based testing (proptest): round trip for three encodings + bounded-decompression oracle",
      "Properties values round-trip inline, packed and through Inscription::new with compression; generated brotli bombs around the 30:1 and 4,000,000-byte limits are refused exactly when the harness' own decompressor says they exceed the limit.",
      "brotli crate trusted; hooks H6 expose the crate-private encoders unchanged.")
claim("C35", "property-based testing (proptest): round trip through ord's encoders and real redb tables",
      "Generated values in every encoding's domain are stored and loaded back through the crate-private Entry implementations, UtxoEntryBuf for all 8 flag combinations, merged pseudo-output entries and redb tables.",
      "Hooks H5 call the encoders unchanged.")
claim("C36", "property-based testing (proptest): differential against the documented precedence rule",
      "Generated subsets of sources per setting with pairwise different values; Settings::merge output compared per key with flag > env > file > default, OR for switches, union for hidden.",
      "Environment passed as the map that Settings::load builds (process environment not mutated).")

claim("C01", "model-based property testing (proptest): generated valid chains indexed by the real Index vs a reference implementation of the BIP's assign_ordinals",
      "Chains valid by construction (multi-output/under-paying coinbases, fee payers, same-block spends, zero-value and OP_RETURN outputs, duplicate coinbase txids) are indexed through the real updater over a mock node under random flags/commit intervals/update partitions; every unspent output's listed ranges and the lost-sats list must equal the reference model at every checkpoint.",
      "RefSats (harness/src/model/sats.rs) implements bip.mediawiki; mockcore serves the blocks; coinbase maturity not enforced (as in the repository's tests). Known finding for duplicate-txid-respent excluded by signature.")
claim("C02", "model-based property testing + table audit over generated chains",
      "At every checkpoint of generated histories the H1 dump is audited for the sat partition (disjoint, complete, value-consistent) and Index::find / find_range / rare_sat_satpoints are compared with the model for boundary and random sats.",
      "RefSats as oracle for locations; sats destroyed by duplicate txids are taken from the model.")
claim("C12", "differential property testing: two generated schedules over the same generated chain",
      "The same chain (sats, inscriptions, runes, addresses) is indexed twice with different commit intervals, update partitions and reopen points; full table dumps must be identical except timing/commit bookkeeping.",
      "Dump hook H1 is read-only; masked keys are exactly Commits, InitialSyncTime, LastSavepointHeight, the write-transaction timestamp table and savepoint ids.")
claim("C17", "model-based property testing: address multimap vs unspent outputs recomputed from the generated blocks",
      "Generated chains with heavy script reuse indexed with --index-addresses; script->outpoint multimap, per-entry script/value and get_address_info compared with the set of unspent outputs derived directly from the blocks at every checkpoint.",
      "OP_RETURN outputs count as unspent (nothing can spend them); pseudo-outputs listed under the empty script are excluded.")

claim("C03", "model-based property testing (proptest): inscriptions bound to sats in a reference model vs the real index over generated chains",
      "RefInscriptions attaches each inscription to a sat and lets RefSats move it; at every checkpoint every inscription's reported satpoint, sat, burned/unbound status and find() result must equal the model.",
      "ParsedEnvelope::from_transaction trusted (C27); no duplicate txids in these profiles.")
claim("C04", "table audit over generated histories (proptest)",
      "At every checkpoint the dump is audited: one satpoint per sequence number, output lists equal the satpoint table as multisets, offsets inside values, counts equal the parser's envelope count.",
      "Dump hook H1; envelope count via ord's own parser as the statement says.")
claim("C05", "table audit + model ids over generated histories crossing the jubilee (proptest)",
      "Ids, dense blessed/cursed numbering, inverse lookup tables, per-height counters and fee-spent-last ordering checked at every checkpoint on regtest (jubilee 110) and testnet4.",
      "Curse classification itself is not predicted.")
claim("C06", "model-based property testing (proptest): sat occupancy from the reference model vs charms",
      "The two implications of the statement are evaluated for every inscription of every generated chain using the model's per-sat occupancy.",
      "Grey zone between the implications is not asserted.")
claim("C07", "model-based property testing (proptest): S(tx) from the reference model vs recorded parents and derived tables",
      "Generated parent references of every kind; recorded parents must equal named ∩ spent-or-revealed ∩ older, children/latest-child tables must be consistent.",
      "S(tx) computed from sats (model), not from ord's flotsam list.")

claim("C08", "invariant checking over generated histories (proptest) + reference model as second opinion",
      "Supply conservation, no zero/unknown/duplicated balances, no runes on OP_RETURN or spent outputs and mints <= cap are evaluated from index data at every checkpoint of generated rune-heavy chains; RefRunes equality as a second oracle.",
      "Runestone::decipher (C25) and Rune::minimum_at_height (C33) trusted.")
claim("C09", "model-based property testing (proptest): RefRunes allocation vs index balances",
      "Generated dense runestones over generated input balances and output layouts; per-output balances and burned totals must equal the reference allocation written from the specification.",
      "as C08")
claim("C10", "model-based property testing (proptest): reference mintable() from the specification text vs indexed mint counts",
      "Generated terms around every window edge and cap, mints before/at/after each edge, in cenotaphs, of unetched and later-etched ids; entries and balances must equal RefRunes.",
      "as C08")
claim("C11", "model-based property testing (proptest): reference etching validity vs the indexed rune set",
      "Generated names around the minimum, reserved, duplicate, unnamed; commitments of every kind and age; set of runes, ids, numbers, names and lookup tables must equal RefRunes and be mutually consistent.",
      "as C08; commitment look-ups answered by the mock node")

claim("C15", "differential property testing: one generated chain under every optional-index configuration incl. a non-full UTXO index",
      "All 8 sat/address/transaction flag combinations plus the node-fetch path (hook H4) index the same generated chain; projections onto inscription and rune content must be equal to the full sat index.",
      "Hook H4 makes a regtest index non-full; blocks below the overridden height are empty by construction.")
claim("C16", "property-based testing with adversarial generators; oracle = no error, no panic (any thread), follow-up audits",
      "Adversarial witnesses, runestones, scripts and values on chains valid by construction under all flag combinations and the non-full index; update must return Ok without panics and the C04/C08 audits must hold afterwards.",
      "Valid by construction; script validity not modelled; background-thread panics are attributed by re-running the case in isolation.")
claim("C37", "property-based testing: event-stream replay vs index tables over generated histories",
      "Events from Index::open_with_event_sender are folded (locations, charms, parents, etchings, mints, burns, balances) and compared with the dump.",
      "Events within one transaction are treated as a set.")

claim("C14", "stateful property-based testing (proptest op sequences) with a from-scratch differential oracle and a deterministic livelock hook",
      "Generated mine/update/reorg/reopen histories with small savepoint intervals; after every update the index equals a from-scratch index of the node's chain, or the reorg is reported unrecoverable and flagged; livelock decided by hook H3.",
      "mock node reports headers=0 (savepoints as at the tip); new branch always longer.", category="exploration")

claim("C13", "fault injection over generated histories: worker process aborted at an armed crash point (hook H2), reopened and compared with from-scratch indexes",
      "13 crash points x occurrences x generated histories (with reorganisations): the reopened index must be a fully committed height of the old or new branch and continuing must reach the uninterrupted content.",
      "crash = abort(); OS buffers survive; no crash points inside redb.", category="fault_enumeration")

claim("C19", "property-based testing over generated inscriptions and server configurations; validity predicate per HTTP response",
      "Hand-built inscriptions (content types incl. invalid bytes, encodings, delegates, hidden ids, reinscriptions) are served by an in-process ord server; every response is judged for body fidelity, content type, encoding handling, CSP presence and sandbox sources, hidden-content leaks and cache headers.",
      "Accept-Encoding acceptance = ord's exact-token rule; transport compression undone before comparing.")

claim("C18", "differential property testing: HTTP JSON of an in-process ord server vs the table dump, over generated index states",
      "Every JSON/recursive route is requested for sampled objects of generated chains (incl. page boundaries) and compared field by field with the H1 dump and the generated blocks; pagination is recomputed by the harness.",
      "Bodies are deserialised with ord::api types; spaced runes compared in printed form.")

claim("C22", "property-based testing: real `ord wallet send/burn/split` commands over generated rune inventories audited against the index, plus the split constructor (hook H7) against an independent runes transfer evaluator",
      "Generated wallets (up to 3 runes, several runes per output, several outputs per rune, inscribed runic outputs) and requests (zero, one, fraction, full, too much); after mining, recipients hold exactly the requested amounts, burned supply grows by exactly the requested burn, everything else returns to wallet addresses, and zero requests are rejected.",
      "E2E balances are read from ord's index (C08-C11 check it); the split part uses the harness' own transfer rules and runestone decoder; amounts are capped so that sums fit u128.")

claim("C23", "property-based testing: real node-funded `ord wallet` commands over generated mixed wallets, observed at the mock node's mempool and lock set",
      "Generated wallets mix cardinal, inscribed, runic and inscribed+runic outputs (non-cardinal ones more valuable, the mock funds largest-first); send, send/burn runes, mint, split and offer create must produce transactions whose inputs are cardinal or the command's own subject, and must leave every other inscribed or runic output locked.",
      "mock fundrawtransaction stands in for bitcoind coin selection; mockcore feature `verif` gives lockunspent Bitcoin Core's semantics; sweep is not driven.")

claim("C21", "property-based testing: real `ord wallet batch` over generated batch files and wallets, audited against the index after mining commit and reveal",
      "Generated batch files (all four modes, 1..5 inscriptions, parents, postage, metadata, delegates, destinations, satpoints, reinscription, optional etching with terms) run through the real CLI; reported ids, satpoints, destinations, parents, delegates, content, premine location and rune entry are compared with what the index holds once both transactions are mined; the commit may spend no inscribed or runic output.",
      "`sat:` targets are not generated (no sat index in the wallet test bed); metadata/gallery contents not compared; the index is the reference for what the indexer assigns, as the property states.")

claim("C24", "property-based testing: generated PSBTs (well-formed offers and single-clause perturbations) presented to the real `ord wallet offer accept`, judged by a reference acceptance predicate",
      "Acceptance (exit 0 or a broadcast) is allowed only if the harness' own evaluation of every clause holds: one wallet input, exactly the named inscription, no runes, balance change equal to --amount, all other inputs signed; the broadcast transaction must be the offered one with the other inputs' signatures unchanged.",
      "mock node signer/finaliser semantics (fixed witness, existing signatures discarded); mockcore feature `verif` makes simulaterawtransaction use the node's own network.")
