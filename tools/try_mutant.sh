#!/usr/bin/env bash
# usage: tools/try_mutant.sh <patch.diff> <ID> [<ID>...]   -- applies the patch to /repo, runs the quick checks, reverts
set -u
PATCH="$1"; shift
cd /repo && git diff --quiet || { echo "/repo not clean"; exit 2; }
git -C /repo apply "$PATCH" || { echo "patch does not apply"; exit 2; }
cd /verif
for id in "$@"; do
  # evidence describes runs against the unchanged tree only
  [ -f evidence/$id.json ] && cp evidence/$id.json /tmp/evidence-keep-$id.json
  echo "=== $id against $(basename $(dirname $PATCH))"
  ( time ./check "$id" quick ${MUT_ARGS:-} ) 2>&1 | grep -v "^ *at \|^ *[0-9]*: \|^KNOWN" | cut -c1-600 | grep -E "VIOLATION|violation in|property=|INCONCLUSIVE|real" | head -8
  [ -f /tmp/evidence-keep-$id.json ] && mv /tmp/evidence-keep-$id.json evidence/$id.json
done
git -C /repo checkout -- . 
echo reverted: $(git -C /repo status --short | wc -l) dirty files
