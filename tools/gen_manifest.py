#!/usr/bin/env python3
"""Writes /verif/MANIFEST.json from the table below (single source of truth
for what is claimed). Run after changing CLAIMED / NOT_APPLICABLE."""
import json, subprocess

HOOK_COMMITS = subprocess.run(
    ["git", "-C", "/repo", "log", "--format=%h %s", "a57bfc1..HEAD"],
    capture_output=True, text=True).stdout.strip().splitlines()
HOOK_COMMITS = [l.split()[0] for l in HOOK_COMMITS if not l.split(" ", 1)[1].startswith("fix:")]

# id -> (category, technique, level text, level note, design ref)
CLAIMED = {}

def claim(pid, technique, text, note, category="exploration"):
    CLAIMED[pid] = dict(category=category, technique=technique, text=text, note=note)

exec(open("/verif/tools/claims.py").read())

ALL = [json.loads(l)["id"] for l in open("/verif/properties.jsonl")]

manifest = {
    "version": 1,
    "setup_cmd": "cd /verif/harness && CARGO_NET_OFFLINE=true cargo build --release --offline --bins && (CARGO_NET_OFFLINE=true cargo +nightly fuzz build -s none || echo 'fuzz targets not built: the coverage-guided stage of C25/C26/C27/C31 thorough will be skipped')",
    "hooks": {
        "guard": "cargo feature `verif` of the ord crate and of the mockcore crate (both off by default)",
        "enable": "the harness depends on ord by path with features = [\"verif\"], and on mockcore likewise (harness/Cargo.toml); every ./check rebuilds it from /repo's working tree",
        "baseline_off_cmd": "cd /repo && cargo test --workspace --no-fail-fast --offline -- --test-threads 8",
        "source_commits": HOOK_COMMITS,
        "add_only": True,
    },
    "engines": [
        {
            "name": "ordverif",
            "path": "harness",
            "serves_properties": sorted(CLAIMED),
            "kind_free_text": "Rust harness: proptest 1.11 TestRunner per worker thread (seeded from VERIF_SEED), shrinking, JSON replay files, reference models and audits; links ord, ordinals and mockcore by path",
        },
        {
            "name": "ordverif-fuzz",
            "path": "harness/fuzz",
            "serves_properties": ["C25", "C26", "C27", "C31"],
            "kind_free_text": "cargo-fuzz 0.13 / libFuzzer targets (runestone, varint, witness, text) whose body is the property's own oracle from the harness library; first stage of the thorough tier of these properties, failing inputs are converted to harness replay files and re-executed there before being reported",
        }
    ],
    "checks": [],
    "not_applicable": [],
    "notes": "Every check: ./check <ID> <tier>. Exit 0 held / 1 VIOLATION / 2 inconclusive. known-findings.txt lists recorded findings and fixed defects.",
}
for pid in ALL:
    if pid in CLAIMED:
        c = CLAIMED[pid]
        manifest["checks"].append({
            "property_id": pid,
            "quick_cmd": f"./check {pid} quick",
            "thorough_cmd": f"./check {pid} thorough",
            "evidence_file": f"/verif/evidence/{pid}.json",
            "replay_cmd_template": f"./check {pid} quick --replay {{path}}",
            "engine": "ordverif",
            "level_claimed": {"category": c["category"], "text": c["text"], "design_ref": f"DESIGN.md section 7, {pid}"},
            "level_note": c["note"],
            "technique": c["technique"],
        })
    else:
        manifest["not_applicable"].append({
            "property_id": pid,
            "reason": NOT_YET.get(pid, "check not built yet in this session; not claimed until its check is sound (see DESIGN.md section 12)"),
        })
json.dump(manifest, open("/verif/MANIFEST.json", "w"), indent=1)
print("claimed", len(CLAIMED), "not claimed", len(ALL) - len(CLAIMED))
